"""Built-in functions and methods (trusted contracts of CPython built-ins, assumption A2)."""
from __future__ import annotations

import ast
from typing import Any

import z3

from . import seqs
from .sorts import *  # noqa
from .state import Exc, State, new_ref


class BuiltinMixin:
    def num_args(self, args, st):
        out = []
        for a in args:
            a = self.deref(self.unwrap_opt(a, st, "numeric argument"), st)
            if not isinstance(a, V):
                raise Unsupported("numeric builtin on non-scalar")
            out.append(a)
        return out

    def call_builtin(self, name, args, kwargs, st, node=None):
        m = getattr(self, "bi_" + name, None)
        if m is None:
            raise Unsupported(f"builtin {name}")
        yield from m(args, kwargs, st)

    # ---- spec-only
    def bi_implies(self, args, kwargs, st):
        yield V(BOOL, z3.Implies(self.truthy(args[0], st), self.truthy(args[1], st))), st

    def bi_tail_alias(self, args, kwargs, st):
        """tail_alias(f, xs): f is the bound `append` of xs[-1] and xs has not been restructured since it was taken
        (an aliasing invariant, decided on the symbolic heap, not by the solver).  After a loop havoc the invariant
        re-establishes the alias for the havocked container."""
        f, xs = args
        ok = False
        if isinstance(f, VFunc) and f.kind == "tailappend" and isinstance(xs, VRef):
            cell = st.heap.get(f.obj.ref)
            if isinstance(cell, tuple) and cell[0] == "tailalias":
                ok = cell[1] == xs.ref and st.heap[xs.ref] is cell[2]
        n = self.as_seq(xs, st, "tail_alias").length()
        yield V(BOOL, z3.And(z3.BoolVal(ok), n >= 1)), st

    def bi_iff(self, args, kwargs, st):
        yield V(BOOL, self.truthy(args[0], st) == self.truthy(args[1], st)), st

    def bi_ite(self, args, kwargs, st):
        yield self.merge(self.truthy(args[0], st), args[1], args[2], st), st

    def bi_cells(self, args, kwargs, st):
        vs = self.as_seq(args[0], st, "cells()")
        facts: list = []
        r = seqs.cells(vs, facts)
        yield V(INT, self.from_mathint(r)), st

    def bi_width_of(self, args, kwargs, st):
        (a,) = self.num_args(args, st)
        yield V(INT, self.from_mathint(seqs.W(self.to_mathint(self.as_int(a))))), st

    def bi_lsum(self, args, kwargs, st):
        vs = self.as_seq(args[0], st, "lsum()")
        yield V(INT, self.from_mathint(self.lsum_with_lemmas(vs, st))), st

    def bi_prefix_pad(self, args, kwargs, st):
        """prefix_pad(result, text): result == text[:k] + " " * j for some 0 <= k <= len(text), j >= 0.
        The witnesses are found by matching the rope structure of `result` (the side conditions go to
        the solver), so a `True` answer is a checked witness, never a guess."""
        res = self.as_seq(args[0], st, "prefix_pad")
        txt = self.as_seq(args[1], st, "prefix_pad")
        if len(txt.pieces) != 1 or txt.pieces[0].kind != "view":
            raise Unsupported("prefix_pad: text is not a single view")
        t = txt.pieces[0]
        pieces = list(res.pieces)
        k = z3.IntVal(0)
        conds = []
        pos = t.lo
        while pieces and pieces[0].kind == "view" and pieces[0].a.eq(t.a):
            p = pieces.pop(0)
            conds.append(z3.Or(p.lo == pos, p.hi <= p.lo))  # contiguous continuation (or an empty piece)
            conds.append(p.hi >= p.lo)
            pos = z3.If(p.hi > p.lo, p.hi, pos)
        conds.append(pos <= t.hi)
        conds.append(pos >= t.lo)
        for p in pieces:
            if p.kind == "rep":
                conds.append(z3.Or(p.a == 32, p.hi <= 0))
            elif p.kind == "lit":
                conds.extend([it == 32 for it in p.items])
            else:
                # a view that is not a prefix continuation: must be empty
                conds.append(p.hi <= p.lo)
        yield V(BOOL, z3.And(*conds)), st

    # ---- cell width of a line of segments: sum over the segments of (0 if control else cells(text))
    def segcells(self):
        """(UF, element measure): prefix sums of segment cell widths over an array of Segment records;
        unfolding axiom + monotonicity lemma (cell widths are >= 0; induction on j - i) added once"""
        if getattr(self, "_segcells", None) is None:
            so = self.U.rec("Segment")
            dt = self.U.z3sort(so)
            sdt = self.U.z3sort(STR)
            arrsort = z3.ArraySort(z3.IntSort(), dt)
            uf = z3.Function("segcells", arrsort, z3.IntSort(), z3.IntSort())
            decl = self.U.records["Segment"]
            idx = {f: i for i, (f, _) in enumerate(decl.fields)}

            def measure(seg):
                text = dt.accessor(0, idx["text"])(seg)
                ctrl = dt.accessor(0, idx["is_control"])(seg)
                return z3.If(ctrl, 0, seqs.pcell(sdt.arr(text), sdt.len(text)) - seqs.pcell(sdt.arr(text), 0))

            a = z3.Const("a!seg", arrsort)
            i, j = z3.Int("i!seg"), z3.Int("j!seg")
            self.global_facts.append(z3.ForAll([a, i], uf(a, i + 1) == uf(a, i) + measure(a[i]), patterns=[a[i]]))
            self.global_facts.append(z3.ForAll([a, i, j], z3.Implies(i <= j, uf(a, i) <= uf(a, j)), patterns=[z3.MultiPattern(uf(a, i), uf(a, j))]))
            s_ = z3.Const("s!seg", dt)
            self.global_facts.append(z3.ForAll([s_], z3.Implies(sdt.len(dt.accessor(0, idx["text"])(s_)) >= 0, measure(s_) >= 0), patterns=[dt.accessor(0, idx["text"])(s_)]))
            self._segcells = (uf, measure)
        return self._segcells

    def bi_line_cells(self, args, kwargs, st):
        vs = self.as_seq(args[0], st, "line_cells()")
        if vs.elem.kind != "rec" or vs.elem.name != "Segment":
            if not vs.pieces:
                yield V(INT, self.I(0)), st
                return
            raise Unsupported("line_cells of a non-Segment list")
        uf, measure = self.segcells()
        r = z3.IntVal(0)
        for p in vs.pieces:
            if p.kind == "view":
                r = r + uf(p.a, p.hi) - uf(p.a, p.lo)
            elif p.kind == "rep":
                r = r + p.hi * measure(p.a)
            else:
                for it in p.items:
                    r = r + measure(it)
        yield V(INT, self.from_mathint(z3.simplify(r))), st

    def bi_seq_eq(self, args, kwargs, st):
        yield V(BOOL, self.val_eq(args[0], args[1], st)), st

    def bi_char_at(self, args, kwargs, st):
        vs = self.as_seq(args[0], st)
        i = self.to_mathint(self.as_int(self.deref(args[1], st)))
        yield V(INT, self.from_mathint(seqs.seq_elem(vs, i))), st

    # ---- numeric
    def bi_len(self, args, kwargs, st):
        v = self.deref(self.unwrap_opt(args[0], st, "len()"), st)
        if isinstance(v, VTuple):
            yield V(INT, self.I(len(v.items))), st
            return
        if isinstance(v, VFunc) and v.kind in ("pydict", "pylist"):
            yield V(INT, self.I(len(v.data))), st
            return
        if isinstance(v, ObjState) or (isinstance(v, V) and v.sort.kind == "rec"):
            clsname = v.cls if isinstance(v, ObjState) else v.sort.name
            mod_, cls_ = self.class_of_record(clsname)
            if mod_ is not None and f"{cls_}.__len__" in mod_.funcs:
                yield from self.call_function(mod_, f"{cls_}.__len__", [args[0]], {}, st)
                return
        if hasattr(self, "dict_len"):
            r = self.dict_len(v, st)
            if r is not None:
                yield r, st
                return
        vs = self.as_seq(v, st, "len()")
        yield V(INT, self.from_mathint(vs.length())), st

    def _minmax_key(self, args, kwargs, st, is_min):
        """min(iterable, key=f): trusted built-in contract — the result is an element r of the iterable with
        f(r) <= f(x) for every element x (ties: any minimiser; CPython returns the first)"""
        from .exec_call import fresh_mark, skolemize

        it = self.make_iter(args[0], st)
        key = kwargs["key"]
        n = it.length
        self.oblige(st, n >= 1, "safe", "min()/max() of a non-empty iterable", name=f"{self.cur_fn}::safe.ValueError")
        ri = z3.Int(fresh_name("argmin"))
        st.assume(z3.And(0 <= ri, ri < n))
        rv = it.get(ri, st)

        def keyval(idx, state):
            outs = list(self.call_value(key, [it.get(idx, state)], {}, state))
            if len(outs) != 1 or isinstance(outs[0][0], Exc):
                raise Unsupported("key function forks or raises")
            v = self.deref(outs[0][0], outs[0][1])
            if not isinstance(v, V) or v.sort.kind not in ("int", "real", "bool"):
                raise Unsupported("key function result is not numeric")
            return self.real_of(v) if v.sort.kind == "real" else self.to_mathint(self.as_int(v)), outs[0][1]

        kr, st1 = keyval(ri, st)
        j = z3.Int(fresh_name("mj"))
        mark = fresh_mark()
        sub = st1.copy()
        sub.assume(z3.And(0 <= j, j < n))
        kj, sub2 = keyval(j, sub)
        facts = sub2.pc[len(st1.pc) + 1:]
        kj, *facts = skolemize(j, mark, [kj] + list(facts))
        cmp_ = (kr <= kj) if is_min else (kr >= kj)
        st1.assume(z3.ForAll([j], z3.Implies(z3.And(0 <= j, j < n), z3.And(cmp_, *facts))))
        yield rv, st1

    def _minmax(self, args, kwargs, st, is_min):
        if set(kwargs) == {"key"} and len(args) == 1:
            yield from self._minmax_key(args, kwargs, st, is_min)
            return
        if kwargs:
            raise Unsupported("min/max with key / default")
        if len(args) == 1:
            v = self.deref(args[0], st)
            if isinstance(v, VTuple):
                args = v.items
            else:
                yield from self._minmax_seq(v, st, is_min)
                return
        vals = self.num_args(args, st)
        real = any(v.sort.kind == "real" for v in vals)
        r = vals[0]
        for v in vals[1:]:
            if real:
                a, b = self.real_of(r), self.real_of(v)
                r = V(REAL, z3.If((b < a) if is_min else (b > a), b, a))
            else:
                a, b = self.as_int(r), self.as_int(v)
                r = V(INT, z3.If((b < a) if is_min else (b > a), b, a))
        yield r, st

    def _minmax_seq(self, v, st, is_min):
        """max(list) / min(list) of ints: the result bounds every element and is one of them (witness index);
        ValueError on an empty list (built-in contract)"""
        vs = self.as_seq(v, st, "min()/max()")
        if vs.is_str or vs.elem.kind not in ("int", "bool"):
            raise Unsupported("min/max over a sequence of non-ints")
        n = vs.length()
        for e, s2 in self.guard(st, n > 0, "ValueError", "min()/max() of an empty sequence"):
            if e is not None:
                yield e, s2
                continue
            facts: list = []
            arr, ln = seqs.materialize(vs, facts, z3.IntSort())
            for f in facts:
                s2.assume(f)
            m = z3.Int(fresh_name("min" if is_min else "max"))
            k = z3.Int(fresh_name("mk"))
            w = z3.Int(fresh_name("mw"))
            s2.assume(z3.ForAll([k], z3.Implies(z3.And(0 <= k, k < ln), (arr[k] >= m) if is_min else (arr[k] <= m)), patterns=[arr[k]]))
            s2.assume(z3.And(0 <= w, w < ln, arr[w] == m))
            yield V(INT, self.from_mathint(m)), s2

    def _anyall(self, args, st, is_any):
        vs = self.as_seq(args[0], st, "any()/all()")
        k = z3.Int(fresh_name("aa"))
        sub = st.copy()
        sub.assume(z3.And(0 <= k, k < vs.length()))
        b = self.truthy(self.elem_value(vs, k, sub), sub)
        facts = list(sub.pc[len(st.pc) + 1:])
        rng = z3.And(0 <= k, k < vs.length(), *facts)
        return z3.Exists([k], z3.And(rng, b)) if is_any else z3.ForAll([k], z3.Implies(rng, b))

    def bi_any(self, args, kwargs, st):
        yield V(BOOL, self._anyall(args, st, True)), st

    def bi_all(self, args, kwargs, st):
        yield V(BOOL, self._anyall(args, st, False)), st

    def bi_min(self, args, kwargs, st):
        yield from self._minmax(args, kwargs, st, True)

    def bi_max(self, args, kwargs, st):
        yield from self._minmax(args, kwargs, st, False)

    def bi_abs(self, args, kwargs, st):
        (a,) = self.num_args(args, st)
        if a.sort.kind == "real":
            yield V(REAL, z3.If(a.t < 0, -a.t, a.t)), st
        else:
            t = self.as_int(a)
            yield V(INT, z3.If(t < 0, -t, t)), st

    def bi_sum(self, args, kwargs, st):
        v = self.deref(args[0], st)
        if isinstance(v, VTuple):
            vals = self.num_args(v.items, st)
            if any(x.sort.kind == "real" for x in vals):
                r = z3.RealVal(0)
                for x in vals:
                    r = r + self.real_of(x)
                yield V(REAL, r), st
            else:
                r = self.I(0)
                for x in vals:
                    r = r + self.as_int(x)
                yield V(INT, r), st
            return
        vs = self.as_seq(v, st, "sum()")
        if vs.elem != INT or self.bv:
            raise Unsupported("sum of a non-int list")
        yield V(INT, self.lsum_with_lemmas(vs, st)), st

    def lsum_with_lemmas(self, vs, st):
        facts: list = []
        r = seqs.lsum(vs, facts)
        for f in facts:
            if isinstance(f, tuple) and f[0] == "psum_nonneg":
                # the non-positive half of the lemma is only instantiated for contracts that ask for it (it slows
                # unrelated proofs down: Box.get_row went from 1 s to a timeout with it)
                st.assume(seqs.psum_nonneg_lemma(f[1], f[2], f[3], with_nonpos="psum_nonpos" in getattr(self.contract_stack[0], "lemmas", [])))
            else:
                st.assume(f)
        return r

    def bi_int(self, args, kwargs, st):
        if len(args) != 1 or kwargs:
            raise Unsupported("int() with base")
        (a,) = [self.deref(self.unwrap_opt(args[0], st, "int()"), st)]
        if isinstance(a, V) and a.sort.kind in ("int", "bool"):
            yield V(INT, self.as_int(a)), st
        elif isinstance(a, V) and a.sort.kind == "real":
            fl = z3.ToInt(a.t)
            yield V(INT, self.from_mathint(z3.If(a.t >= 0, fl, -z3.ToInt(-a.t)))), st
        else:
            raise Unsupported("int() of a string")

    def bi_float(self, args, kwargs, st):
        (a,) = self.num_args(args, st)
        yield V(REAL, self.real_of(a)), st

    def bi_bool(self, args, kwargs, st):
        yield V(BOOL, self.truthy(args[0], st)), st

    def bi_round(self, args, kwargs, st):
        if len(args) != 1:
            raise Unsupported("round(x, n)")
        (a,) = self.num_args(args, st)
        if a.sort.kind != "real":
            yield V(INT, self.as_int(a)), st
            return
        x = a.t
        fl = z3.ToInt(x)
        frac = x - z3.ToReal(fl)
        half = z3.RealVal("1/2")
        r = z3.If(frac < half, fl, z3.If(frac > half, fl + 1, z3.If(fl % 2 == 0, fl, fl + 1)))
        yield V(INT, self.from_mathint(r)), st

    def bi_ceil(self, args, kwargs, st):
        (a,) = self.num_args(args, st)
        if a.sort.kind != "real":
            yield V(INT, self.as_int(a)), st
        else:
            yield V(INT, self.from_mathint(-z3.ToInt(-a.t))), st

    def bi_floor(self, args, kwargs, st):
        (a,) = self.num_args(args, st)
        if a.sort.kind != "real":
            yield V(INT, self.as_int(a)), st
        else:
            yield V(INT, self.from_mathint(z3.ToInt(a.t))), st

    def bi_sqrt(self, args, kwargs, st):
        """math.sqrt as an uninterpreted strictly monotone function on non-negative reals (trusted: exact for
        the integer radicands < 2**40 met here, where distinct integers have distinct float square roots)"""
        (a,) = self.num_args(args, st)
        x = self.real_of(a)
        self.oblige(st, x >= 0, "safe", "sqrt of a non-negative number", name=f"{self.cur_fn}::safe.ValueError")
        f = z3.Function("py_sqrt", z3.RealSort(), z3.RealSort())
        u, w = z3.Real("u!sq"), z3.Real("w!sq")
        ax = z3.ForAll([u, w], z3.Implies(z3.And(u >= 0, w >= 0), (f(u) <= f(w)) == (u <= w)), patterns=[z3.MultiPattern(f(u), f(w))])
        if not any(ax.eq(g) for g in self.global_facts):
            self.global_facts.append(ax)
        yield V(REAL, f(x)), st

    def bi_divmod(self, args, kwargs, st):
        for q, s in self.binop(ast.FloorDiv(), args[0], args[1], st):
            if isinstance(q, Exc):
                yield q, s
                continue
            for r, s2 in self.binop(ast.Mod(), args[0], args[1], s):
                yield VTuple([q, r]), s2

    def bi_ord(self, args, kwargs, st):
        vs = self.as_seq(args[0], st, "ord()")
        self.oblige(st, vs.length() == 1, "safe", "ord() of a single character", name=f"{self.cur_fn}::safe.TypeError")
        yield V(INT, self.from_mathint(seqs.seq_elem(vs, z3.IntVal(0)))), st

    def bi_chr(self, args, kwargs, st):
        (a,) = self.num_args(args, st)
        yield VSeq(INT, [Piece("lit", items=[self.to_mathint(self.as_int(a))])], is_str=True), st

    def bi_str(self, args, kwargs, st):
        if not args:
            yield seqs.lit_str(""), st
        else:
            yield self.str_of(args[0], st), st

    def bi_cast(self, args, kwargs, st):
        yield args[1], st

    def bi_hash(self, args, kwargs, st):
        """hash(tuple) = tuplehash_n(h(c1), ..., h(cn)) with per-component hashes: ints hash to themselves,
        None to the constant hash_none, Optional[T] accordingly, everything else through an uninterpreted
        function of the value (equal values, equal hashes — the only property of hash() relied upon)."""
        v = self.deref(args[0], st)
        if not isinstance(v, VTuple):
            raise Unsupported("hash of non-tuple")
        isort = self.U.intsort()
        hnone = z3.Const("hash_none", isort)

        def h(x):
            x = self.deref(x, st)
            if isinstance(x, VSeq):
                x = V(x.sort, self.to_term(x, x.sort, st))
            if isinstance(x, ObjState):
                so_ = Sort("rec", (), x.cls)
                x = V(so_, self.to_term(x, so_, st))
            if not isinstance(x, V):
                raise Unsupported("hash component")
            k = x.sort.kind
            if k == "none":
                return hnone
            if k in ("int", "bool"):
                return self.as_int(x)
            if k == "opt":
                dt = self.U.z3sort(x.sort)
                inner = self.from_term(dt.val(x.t), x.sort.args[0], st)
                return z3.If(dt.is_none(x.t), hnone, h(inner))
            f = z3.Function("hash_" + str(self.U.z3sort(x.sort)).replace(" ", "_"), self.U.z3sort(x.sort), isort)
            return f(x.t)

        comps = [h(x) for x in v.items]
        tf = z3.Function(f"tuplehash_{len(comps)}", *([isort] * len(comps)), isort)
        yield V(INT, tf(*comps)), st

    def bi_isinstance(self, args, kwargs, st):
        v = self.deref(args[0], st)
        cls = self.deref(args[1], st)
        names = []
        for c in (cls.items if isinstance(cls, VTuple) else [cls]):
            if isinstance(c, VFunc):
                names.append(c.name)
            else:
                raise Unsupported("isinstance class")
        def kind_matches(sort: Sort):
            for n in names:
                if n == "str" and sort.kind == "str":
                    return True
                if n == "int" and sort.kind in ("int", "bool"):
                    return True
                if n == "float" and sort.kind == "real":
                    return True
                if n == "bool" and sort.kind == "bool":
                    return True
                if n in ("list",) and sort.kind == "list":
                    return True
                if n == "tuple" and sort.kind == "tuple":
                    return True
                if sort.kind == "rec" and (sort.name == n or n in self.rec_bases(sort.name)):
                    return True
                if sort.kind == "opaque" and sort.name == n:
                    return True
            return False
        if isinstance(v, (VSeq, VTuple, ObjState)):
            so = self.sort_of(v, st)
            yield V(BOOL, z3.BoolVal(kind_matches(so))), st
            return
        if isinstance(v, V):
            if v.sort.kind == "opt":
                dt = self.U.z3sort(v.sort)
                yield V(BOOL, z3.And(dt.is_some(v.t), z3.BoolVal(kind_matches(v.sort.args[0])))), st
                return
            if v.sort.kind == "opaque" and not kind_matches(v.sort):
                # opaque values: class membership is an uninterpreted predicate
                p = z3.Function(f"isinst_{'_'.join(names)}", self.U.z3sort(v.sort), z3.BoolSort())
                yield V(BOOL, p(v.t)), st
                return
            yield V(BOOL, z3.BoolVal(kind_matches(v.sort))), st
            return
        raise Unsupported("isinstance")

    def rec_bases(self, name):
        return getattr(self.U.records[name], "bases", [])

    # ---- iterables
    def bi_range(self, args, kwargs, st):
        yield self.iter_value(self.iter_range(args, st)), st

    def bi_zip(self, args, kwargs, st):
        from .exec_call import Iter

        its = [self.make_iter(a, st) for a in args]
        n = its[0].length
        for it in its[1:]:
            n = z3.If(it.length < n, it.length, n)
        yield self.iter_value(Iter(z3.simplify(n), lambda i, s: VTuple([it.get(i, s) for it in its]), "zip")), st

    def bi_zip_longest(self, args, kwargs, st):
        """itertools.zip_longest(a, b, ...) without fillvalue: as many tuples as the longest argument, None where an
        argument is exhausted (built-in contract)"""
        from .exec_call import Iter

        if kwargs:
            raise Unsupported("zip_longest with fillvalue")
        its = [self.make_iter(a, st) for a in args]
        n = its[0].length
        for it in its[1:]:
            n = z3.If(it.length > n, it.length, n)

        def get(i, s):
            return VTuple([self.merge(i < it.length, it.get(i, s), V(NONE, None), s) for it in its])

        yield self.iter_value(Iter(z3.simplify(n), get, "zip_longest")), st

    def bi_enumerate(self, args, kwargs, st):
        from .exec_call import Iter

        it = self.make_iter(args[0], st)
        start = self.I(0)
        if len(args) > 1:
            start = self.as_int(self.deref(args[1], st))
        yield self.iter_value(Iter(it.length, lambda i, s: VTuple([V(INT, self.from_mathint(i) + start), it.get(i, s)]), "enumerate")), st

    def bi_reversed(self, args, kwargs, st):
        from .exec_call import Iter

        it = self.make_iter(args[0], st)
        yield self.iter_value(Iter(it.length, lambda i, s: it.get(z3.simplify(it.length - 1 - i), s), "reversed")), st

    def bi_loop_last(self, args, kwargs, st):
        """rich._loop.loop_last: (is_last, value) pairs (trusted helper contract; its body is a generator)"""
        from .exec_call import Iter

        it = self.make_iter(args[0], st)
        yield self.iter_value(Iter(it.length, lambda i, s: VTuple([V(BOOL, z3.simplify(i == it.length - 1)), it.get(i, s)]), "loop_last")), st

    def bi_loop_first(self, args, kwargs, st):
        from .exec_call import Iter

        it = self.make_iter(args[0], st)
        yield self.iter_value(Iter(it.length, lambda i, s: VTuple([V(BOOL, z3.simplify(i == 0)), it.get(i, s)]), "loop_first")), st

    def bi_iter(self, args, kwargs, st):
        it = self.make_iter(args[0], st)
        r = new_ref()
        st.heap[r] = ObjState("__iterator__", {"it": self.iter_value(it), "pos": V(INT, z3.IntVal(0))})
        yield VRef(r), st

    def bi_next(self, args, kwargs, st):
        ref = args[0]
        obj = self.deref(ref, st)
        if not (isinstance(obj, ObjState) and obj.cls == "__iterator__"):
            raise Unsupported("next() of a non-iterator")
        it = obj.fields["it"].data
        pos = obj.fields["pos"].t
        has = pos < it.length
        if len(args) > 1:
            s2 = st.copy()
            s2.assume(z3.Not(has))
            yield args[1], s2
            st.assume(has)
            st.heap[ref.ref].fields["pos"] = V(INT, z3.simplify(pos + 1))
            yield it.get(pos, st), st
            return
        for e, s2 in self.guard(st, has, "StopIteration", "next() on exhausted iterator"):
            if e is not None:
                yield e, s2
            else:
                s2.heap[ref.ref].fields["pos"] = V(INT, z3.simplify(pos + 1))
                yield it.get(pos, s2), s2

    def bi_list(self, args, kwargs, st):
        if not args:
            yield self.new_list([], st), st
            return
        yield self._materialize_iter(args[0], st), st

    def bi_tuple(self, args, kwargs, st):
        v = self.deref(args[0], st)
        if isinstance(v, VTuple):
            yield v, st
            return
        yield self._materialize_iter(args[0], st), st

    def _materialize_iter(self, v, st):
        v0 = self.deref(v, st)
        if isinstance(v0, VSeq) and not v0.is_str:
            return self.box_list(VSeq(v0.elem, list(v0.pieces)), st)
        it = self.make_iter(v, st)
        from .exec_call import fresh_mark, skolemize

        k = z3.Int(fresh_name("li"))
        mark = fresh_mark()
        sub = st.copy()
        sub.assume(z3.And(0 <= k, k < it.length))
        val = it.get(k, sub)
        es = self.sort_of(val, sub)
        term = self.to_term(val, es, sub)
        arr = z3.Const(fresh_name("lst"), z3.ArraySort(z3.IntSort(), self.U.z3sort(es)))
        facts = sub.pc[len(st.pc) + 1:]
        term, *facts = skolemize(k, mark, [term] + list(facts))
        st.assume(z3.ForAll([k], z3.Implies(z3.And(0 <= k, k < it.length), z3.And(arr[k] == term, *facts)), patterns=[arr[k]]))
        return self.box_list(seqs.view(arr, z3.IntVal(0), z3.simplify(it.length), es), st)

    def bi___new__(self, args, kwargs, st):
        cls = self.deref(args[0], st)
        if not (isinstance(cls, VFunc) and cls.kind == "class" and cls.name in self.U.records):
            raise Unsupported("__new__ of an undeclared class")
        r = new_ref()
        st.heap[r] = ObjState(cls.name, {})
        yield VRef(r), st

    def bi_time(self, args, kwargs, st):
        yield self.fresh(REAL, "time", st), st

    def bi_randint(self, args, kwargs, st):
        (a, b) = self.num_args(args, st)
        r = self.fresh(INT, "randint", st)
        st.assume(z3.And(r.t >= self.as_int(a), r.t <= self.as_int(b)))
        yield r, st

    def bi_getattr(self, args, kwargs, st):
        """getattr(opaque, "literal", None): an uninterpreted Optional attribute of the object"""
        obj = self.deref(args[0], st)
        name = seqs.lit_value(self.deref(args[1], st)) if isinstance(self.deref(args[1], st), VSeq) else None
        if not (isinstance(obj, V) and obj.sort.kind == "opaque" and name and len(args) == 3):
            raise Unsupported("getattr form")
        d = self.deref(args[2], st)
        if not (isinstance(d, V) and d.sort.kind == "none"):
            raise Unsupported("getattr default")
        so = OPT(OPAQUE(f"{obj.sort.name}.{name}"))
        f = z3.Function(f"getattr_{obj.sort.name}_{name}", self.U.z3sort(obj.sort), self.U.z3sort(so))
        yield V(so, f(obj.t)), st

    def bi_print(self, args, kwargs, st):
        yield V(NONE, None), st

    # ------------------------------------------------------------------ methods on builtin types
    def call_method(self, recv, name, args, kwargs, st):
        r0 = self.deref(recv, st)
        if isinstance(r0, V) and r0.sort.kind in ("str", "list"):
            r0 = self.from_term(r0.t, r0.sort, st)
        if isinstance(r0, VSeq) and not r0.is_str:
            if not isinstance(recv, VRef):
                if name == "__getitem__":
                    yield from self.do_index(r0, args[0], st)
                    return
                if name == "copy":
                    yield self.box_list(VSeq(r0.elem, list(r0.pieces)), st), st
                    return
                raise Unsupported(f"list method .{name} on an immutable list value")
            yield from self.list_method(recv, r0, name, args, kwargs, st)
            return
        if isinstance(r0, VSeq) and r0.is_str:
            yield from self.str_method(r0, name, args, kwargs, st)
            return
        if hasattr(self, "dict_method"):
            r = self.dict_method(recv, r0, name, args, kwargs, st)
            if r is not None:
                yield from r
                return
        if isinstance(r0, V) and r0.sort.kind == "opaque":
            c = self.reg.contracts.get(("<opaque>", f"{r0.sort.name}.{name}"))
            if c is None:
                raise Unsupported(f"method .{name} on opaque {r0.sort.name} has no contract")
            yield from self.apply_contract(c, None, [recv] + list(args), kwargs, st)
            return
        raise Unsupported(f"method .{name} on {type(r0).__name__}")

    def list_method(self, ref: VRef, vs: VSeq, name, args, kwargs, st):
        if name == "append":
            x = args[0]
            elem = vs.elem
            if elem.kind == "any":
                elem = self.sort_of(x, st)
            t = self.to_term(x, elem, st)
            st.heap[ref.ref] = VSeq(elem, vs.pieces + [Piece("lit", items=[t])])
            yield V(NONE, None), st
        elif name == "extend":
            other = self.as_seq(args[0], st, "extend()")
            elem = vs.elem if vs.elem.kind != "any" else other.elem
            st.heap[ref.ref] = VSeq(elem, vs.pieces + list(other.pieces))
            yield V(NONE, None), st
        elif name == "pop":
            if args:
                raise Unsupported("list.pop(i)")
            n = vs.length()
            for e, s2 in self.guard(st, n >= 1, "IndexError", "pop from non-empty list"):
                if e is not None:
                    yield e, s2
                    continue
                val = self.elem_value(vs, z3.simplify(n - 1), s2)
                facts: list = []
                ez = self.U.z3sort(vs.elem)
                s2.heap[ref.ref] = seqs.slice_(vs, z3.IntVal(0), z3.simplify(n - 1), facts, ez)
                for f in facts:
                    s2.assume(f)
                yield val, s2
        elif name == "popleft":
            n = vs.length()
            for e, s2 in self.guard(st, n >= 1, "IndexError", "popleft from non-empty deque"):
                if e is not None:
                    yield e, s2
                    continue
                val = self.elem_value(vs, z3.IntVal(0), s2)
                facts: list = []
                s2.heap[ref.ref] = seqs.slice_(vs, z3.IntVal(1), n, facts, self.U.z3sort(vs.elem))
                for f in facts:
                    s2.assume(f)
                yield val, s2
        elif name == "copy":
            yield self.box_list(VSeq(vs.elem, list(vs.pieces)), st), st
        elif name == "clear":
            st.heap[ref.ref] = VSeq(vs.elem, [])
            yield V(NONE, None), st
        elif name == "__getitem__":
            yield from self.do_index(ref, args[0], st)
        else:
            raise Unsupported(f"list.{name}")

    def str_method(self, vs: VSeq, name, args, kwargs, st):
        lv = seqs.lit_value(vs)
        if name == "join":
            parts = self.deref(args[0], st)
            if isinstance(parts, VTuple):
                r = seqs.lit_str("")
                for idx, p in enumerate(parts.items):
                    if idx:
                        r = seqs.concat(r, vs)
                    r = seqs.concat(r, self.str_of(p, st))
                yield r, st
                return
            ps = self.as_seq(parts, st, "join()")
            if ps.elem.kind != "str":
                raise Unsupported("join of non-strings")
            # "sep".join(list of str): result is an opaque string whose length / cells are the folds
            jf = self.join_fold(vs, ps, st)
            yield jf, st
            return
        if lv is not None and all(isinstance(self.deref(a, st), VSeq) and seqs.lit_value(self.deref(a, st)) is not None for a in args) and name in ("lower", "upper", "strip", "startswith", "endswith", "replace", "split", "isdigit", "rstrip", "lstrip"):
            pyargs = [seqs.lit_value(self.deref(a, st)) for a in args]
            r = getattr(lv, name)(*pyargs)
            yield self.py_to_val(tuple(r) if isinstance(r, list) else r), st
            return
        if name == "partition" and len(args) == 1:
            sep = self.deref(args[0], st)
            ls = seqs.lit_value(sep) if isinstance(sep, VSeq) else None
            if ls is not None and len(ls) == 1:
                # str.partition(c) for a one-character separator (trusted built-in contract): split at the FIRST c
                c = ord(ls)
                n = vs.length()
                j = z3.Int(fresh_name("pj"))
                k = z3.Int(fresh_name("pk"))
                s_found = st.copy()
                s_found.assume(z3.And(0 <= k, k < n, seqs.seq_elem(vs, k) == c))
                s_found.assume(z3.ForAll([j], z3.Implies(z3.And(0 <= j, j < k), seqs.seq_elem(vs, j) != c)))
                ez = z3.IntSort()
                facts: list = []
                before = seqs.slice_(vs, z3.IntVal(0), k, facts, ez)
                after = seqs.slice_(vs, k + 1, n, facts, ez)
                for f in facts:
                    s_found.assume(f)
                yield VTuple([before, seqs.lit_str(ls), after]), s_found
                st.assume(z3.ForAll([j], z3.Implies(z3.And(0 <= j, j < n), seqs.seq_elem(vs, j) != c)))
                yield VTuple([vs, seqs.lit_str(""), seqs.lit_str("")]), st
                return
        if name == "isascii" and not args:
            # str.isascii(): every code point below 128 (true for the empty string)
            j = z3.Int(fresh_name("ia"))
            yield V(BOOL, z3.ForAll([j], z3.Implies(z3.And(0 <= j, j < vs.length()), seqs.seq_elem(vs, j) < 128))), st
            return
        raise Unsupported(f"str.{name} on a symbolic string")

    def join_measures(self, sep: VSeq, parts: VSeq, st):
        """(length, cells) of sep.join(parts) computed piece by piece over the rope of parts: prefix-sum
        functions joinlen / joincells over arrays of strings for views, direct sums for literal pieces"""
        sdt = self.U.z3sort(STR)
        arrsort = z3.ArraySort(z3.IntSort(), sdt)
        jl = z3.Function("joinlen", arrsort, z3.IntSort(), z3.IntSort())
        jc = z3.Function("joincells", arrsort, z3.IntSort(), z3.IntSort())
        if not getattr(self, "_join_axioms", False):
            self._join_axioms = True
            a = z3.Const("a!jl", arrsort)
            i, j = z3.Int("i!jl"), z3.Int("j!jl")
            cell_of = lambda t: seqs.pcell(sdt.arr(t), sdt.len(t)) - seqs.pcell(sdt.arr(t), 0)
            self.global_facts.append(z3.ForAll([a, i], z3.And(jl(a, i + 1) == jl(a, i) + sdt.len(a[i]), jc(a, i + 1) == jc(a, i) + cell_of(a[i])), patterns=[a[i]]))
        ln, ce = z3.IntVal(0), z3.IntVal(0)
        for p in parts.pieces:
            if p.kind == "view":
                ln = ln + jl(p.a, p.hi) - jl(p.a, p.lo)
                ce = ce + jc(p.a, p.hi) - jc(p.a, p.lo)
            else:
                items = p.items if p.kind in ("lit", "reps") else [p.a]
                mult = z3.IntVal(1) if p.kind == "lit" else p.hi
                for it in items:
                    ln = ln + mult * sdt.len(it)
                    ce = ce + mult * (seqs.pcell(sdt.arr(it), sdt.len(it)) - seqs.pcell(sdt.arr(it), 0))
        n = parts.length()
        ln = ln + z3.If(n > 0, (n - 1) * sep.length(), 0)
        ce = ce + z3.If(n > 0, (n - 1) * seqs.cells(sep, []), 0)
        return z3.simplify(ln), z3.simplify(ce)

    def join_fold(self, sep: VSeq, parts: VSeq, st):
        """"sep".join(parts) for a list of strings: a deterministic uninterpreted function of the list
        (array, bounds) whose length and cell width are the sums over the parts; a one-element list joins to
        that element (trusted built-in contract of str.join)."""
        sdt = self.U.z3sort(STR)
        lsep = seqs.lit_value(sep)
        if lsep is None:
            raise Unsupported("join with a symbolic separator")
        total_len, total_cells = self.join_measures(sep, parts, st)
        facts: list = []
        arr, ln = seqs.materialize(parts, facts, sdt)
        for f in facts:
            st.assume(f)
        lo = z3.IntVal(0)
        if len(parts.pieces) == 1 and parts.pieces[0].kind == "view":
            arr, lo, ln = parts.pieces[0].a, parts.pieces[0].lo, parts.pieces[0].hi
        tag = lsep.encode("utf-8").hex() or "empty"
        jf = z3.Function(f"joinstr_{tag}", arr.sort(), z3.IntSort(), z3.IntSort(), sdt)
        t = jf(arr, lo, ln)
        res = self.from_term(t, STR, st)
        marker = z3.Bool("joinfacts!" + str(self._tid(z3.simplify(t))))  # _tid keeps the term alive: its id is not recycled
        if any(f.eq(marker) for f in st.pc):
            return res
        st.pc.append(marker)
        cnt = z3.simplify(ln - lo)
        st.assume(res.length() == total_len)
        st.assume(seqs.cells(res, []) == total_cells)
        k = z3.Int(fresh_name("jk"))
        e0 = arr[lo]
        st.assume(z3.Implies(cnt == 1, z3.And(sdt.len(t) == sdt.len(e0),
                                              z3.ForAll([k], z3.Implies(z3.And(0 <= k, k < sdt.len(e0)), sdt.arr(t)[k] == sdt.arr(e0)[k]),
                                                        patterns=[sdt.arr(t)[k]]))))
        # sum-congruence instance: a one-element join has the cell width of that element
        st.assume(z3.Implies(cnt == 1, seqs.pcell(sdt.arr(t), sdt.len(t)) - seqs.pcell(sdt.arr(t), 0)
                             == seqs.pcell(sdt.arr(e0), sdt.len(e0)) - seqs.pcell(sdt.arr(e0), 0)))
        st.assume(z3.Implies(cnt <= 0, sdt.len(t) == 0))
        return res

    def bi_joinlen(self, args, kwargs, st):
        """spec: len("".join(list of str))"""
        parts = self.as_seq(args[0], st, "joinlen()")
        yield V(INT, self.from_mathint(self.join_measures(seqs.lit_str(""), parts, st)[0])), st

    def bi_joincells(self, args, kwargs, st):
        """spec: cells("".join(list of str))"""
        parts = self.as_seq(args[0], st, "joincells()")
        yield V(INT, self.from_mathint(self.join_measures(seqs.lit_str(""), parts, st)[1])), st

    def bi_joined(self, args, kwargs, st):
        """spec: "".join(list of str) — the same function the code's join denotes"""
        parts = self.as_seq(args[0], st, "joined()")
        yield self.join_fold(seqs.lit_str(""), parts, st), st
