"""Expression evaluation (generator based: every expression yields (value | Exc, state) per path)."""
from __future__ import annotations

import ast
from typing import Any, List

import z3

from . import seqs
from .sorts import *  # noqa
from .state import Exc, State, exc_is


def is_simple(node) -> bool:
    """Expression that cannot raise, fork or have side effects (used to avoid path splits)."""
    if isinstance(node, (ast.Name, ast.Constant)):
        return True
    if isinstance(node, ast.Attribute):
        return isinstance(node.value, ast.Name) and node.value.id in ("self", "options", "style", "cls")
    if isinstance(node, ast.UnaryOp):
        return is_simple(node.operand)
    if isinstance(node, ast.BoolOp):
        return all(is_simple(v) for v in node.values)
    if isinstance(node, ast.Compare):
        return is_simple(node.left) and all(is_simple(c) for c in node.comparators)
    if isinstance(node, ast.BinOp) and isinstance(node.op, (ast.Add, ast.Sub, ast.Mult, ast.BitAnd, ast.BitOr)):
        return is_simple(node.left) and is_simple(node.right)
    return False


class ExprMixin:
    # ------------------------------------------------------------------ driver
    def ev(self, node, st: State):
        self.cur_line = getattr(node, "lineno", self.cur_line)
        m = getattr(self, "ev_" + type(node).__name__, None)
        if m is None:
            raise Unsupported(f"expression {type(node).__name__}@{getattr(node, 'lineno', '?')}")
        yield from m(node, st)

    def ev_list(self, nodes, st: State):
        """evaluate nodes left to right; yields (list | Exc, state)"""
        if not nodes:
            yield [], st
            return
        for v, s1 in self.ev(nodes[0], st):
            if isinstance(v, Exc):
                yield v, s1
                continue
            for rest, s2 in self.ev_list(nodes[1:], s1):
                if isinstance(rest, Exc):
                    yield rest, s2
                else:
                    yield [v] + rest, s2

    def guard(self, st: State, ok, excname: str, text: str):
        """Implicit raise point.  If `excname` is caught by an enclosing try (or allowed to escape by the
        contract) both outcomes are explored; otherwise `ok` is a safety obligation."""
        ok = z3.simplify(ok)
        if z3.is_true(ok) or self.spec_mode:
            # spec expressions are total: partial operations are unspecified outside their domain
            yield None, st
            return
        caught = any(any(exc_is(excname, c) for c in frame) for frame in st.catching)
        allowed = any(exc_is(excname, a) for a in self.c.raises) and self.inline_depth == 0 and not self.spec_mode
        if caught or allowed:
            s_exc = st.copy()
            s_exc.assume(z3.Not(ok))
            yield Exc(excname, text, self.cur_line), s_exc
            st.assume(ok)
            yield None, st
        else:
            self.oblige(st, ok, "safe", f"no {excname}: {text}", name=f"{self.cur_fn}::safe.{excname}")
            yield None, st

    # ------------------------------------------------------------------ atoms
    def ev_Constant(self, node, st):
        v = node.value
        if v is None:
            yield V(NONE, None), st
        elif isinstance(v, bool):
            yield V(BOOL, z3.BoolVal(v)), st
        elif isinstance(v, int):
            yield V(INT, self.I(v)), st
        elif isinstance(v, float):
            yield V(REAL, z3.RealVal(repr(v))), st
        elif isinstance(v, str):
            yield seqs.lit_str(v), st
        elif v is Ellipsis:
            raise Unsupported("Ellipsis")
        else:
            raise Unsupported(f"constant {v!r}")

    def ev_Name(self, node, st):
        if node.id == "__opaque_str__":
            yield self.fresh(STR, "fstr", st), st
            return
        yield self.lookup(node.id, st), st

    def ev_Tuple(self, node, st):
        for vals, s in self.ev_list(node.elts, st):
            yield (vals if isinstance(vals, Exc) else VTuple(vals)), s

    def ev_List(self, node, st):
        for vals, s in self.ev_list(node.elts, st):
            if isinstance(vals, Exc):
                yield vals, s
                continue
            yield self.new_list(vals, s), s

    def new_list(self, vals, st: State, elem: Sort = None):
        from .state import new_ref

        hint = getattr(self, "_ann_hint", None)
        if vals and elem is None and hint is not None and hint.kind == "list" and hint.args[0].kind == "list":
            # `xs: List[List[T]] = [[]]`: the inner (empty) lists take their element sort from the annotation
            v0 = self.deref(vals[0], st)
            if isinstance(v0, VSeq) and v0.elem.kind == "any" and not v0.pieces:
                elem = hint.args[0]
                vals = [VSeq(elem.args[0], [], is_str=False) if (isinstance(self.deref(x, st), VSeq) and not self.deref(x, st).pieces) else x for x in vals]
        if vals:
            elem = elem or self.sort_of(vals[0], st)
            vs = VSeq(elem, [Piece("lit", items=[self.to_term(x, elem, st) for x in vals])])
        else:
            vs = VSeq(elem or Sort("any"), [])
        r = new_ref()
        st.heap[r] = vs
        return VRef(r)

    def ev_JoinedStr(self, node, st):
        parts = []
        for v in node.values:
            if isinstance(v, ast.Constant):
                parts.append(v)
            elif isinstance(v, ast.FormattedValue):
                if v.format_spec is not None or v.conversion not in (-1, 115):
                    # repr()/format specs are not modelled: an unconstrained string stands for the piece
                    parts.append(ast.Name(id="__opaque_str__", ctx=ast.Load()))
                else:
                    parts.append(v.value)
        for vals, s in self.ev_list(parts, st):
            if isinstance(vals, Exc):
                yield vals, s
                continue
            r = seqs.lit_str("")
            for x in vals:
                try:
                    piece = self.str_of(x, s)
                except Unsupported:
                    piece = self.fresh(STR, "fstr", s)  # unmodelled formatting: an unconstrained string
                r = seqs.concat(r, piece)
            yield r, s

    def str_of(self, v, st) -> VSeq:
        v = self.deref(v, st)
        if isinstance(v, V) and v.sort.kind == "opt":
            # str(None) is "None": split is avoided — callers in rich assert not-None first
            v = self.deref(self.unwrap_opt(v, st, "str() argument"), st)
        if isinstance(v, VSeq) and v.is_str:
            return v
        if isinstance(v, V) and v.sort.kind == "str":
            return self.from_term(v.t, STR, st)
        if isinstance(v, V) and v.sort.kind == "int":
            return self.decstr(v, st)
        raise Unsupported(f"str() of {getattr(v, 'sort', type(v).__name__)}")

    def decstr(self, v: V, st) -> VSeq:
        """str(int): an uninterpreted injective function into strings (trusted built-in contract)"""
        n = self.to_mathint(v.t)
        nv = z3.simplify(n)
        if z3.is_int_value(nv):
            return seqs.lit_str(str(nv.as_long()))
        dt = self.U.z3sort(STR)
        f = z3.Function("decstr", z3.IntSort(), dt)
        inv = z3.Function("decstr_inv", dt, z3.IntSort())
        t = f(n)
        st.assume(inv(t) == n)
        st.assume(dt.len(t) >= 1)
        return self.from_term(t, STR, st)

    # ------------------------------------------------------------------ operators
    def ev_UnaryOp(self, node, st):
        for v, s in self.ev(node.operand, st):
            if isinstance(v, Exc):
                yield v, s
                continue
            if isinstance(node.op, ast.Not):
                yield V(BOOL, z3.Not(self.truthy(v, s))), s
                continue
            v = self.unwrap_opt(v, s, "unary operand")
            v = self.deref(v, s)
            if not isinstance(v, V):
                raise Unsupported("unary op on non-scalar")
            if isinstance(node.op, ast.USub):
                if v.sort.kind == "real":
                    yield V(REAL, -v.t), s
                else:
                    yield V(INT, -self.as_int(v)), s
            elif isinstance(node.op, ast.UAdd):
                yield v, s
            elif isinstance(node.op, ast.Invert):
                t = self.as_int(v)
                yield V(INT, ~t if z3.is_bv(t) else -t - 1), s
            else:
                raise Unsupported("unary op")

    def as_int(self, v: V):
        if v.sort.kind == "bool":
            return self.int_of_bool(v.t)
        if v.sort.kind == "int":
            return v.t
        raise Unsupported(f"int expected, got {v.sort}")

    def ev_BinOp(self, node, st):
        for vals, s in self.ev_list([node.left, node.right], st):
            if isinstance(vals, Exc):
                yield vals, s
                continue
            yield from self.binop(node.op, vals[0], vals[1], s)

    def binop(self, op, l, r, st):
        l = self.deref(l, st)
        r = self.deref(r, st)
        # sequences
        if isinstance(l, V) and l.sort.kind in ("str", "list"):
            l = self.from_term(l.t, l.sort, st)
        if isinstance(r, V) and r.sort.kind in ("str", "list"):
            r = self.from_term(r.t, r.sort, st)
        if isinstance(l, VSeq) or isinstance(r, VSeq):
            if isinstance(op, ast.Add) and isinstance(l, VSeq) and isinstance(r, VSeq):
                res = seqs.concat(l, r)
                yield (res if res.is_str else self.box_list(res, st)), st
                return
            if isinstance(op, ast.Mult):
                sq, n = (l, r) if isinstance(l, VSeq) else (r, l)
                n = self.unwrap_opt(n, st, "repeat count")
                if len(sq.pieces) == 1 and sq.pieces[0].kind == "view" and self.entails(st, sq.length() == 1):
                    # a symbolic one-element sequence (e.g. a pad character): repeat its single element
                    p0 = sq.pieces[0]
                    sq = VSeq(sq.elem, [Piece("lit", items=[p0.a[p0.lo]])], is_str=sq.is_str)
                res = seqs.repeat(sq, self.to_mathint(self.as_int(n)))
                yield (res if res.is_str else self.box_list(res, st)), st
                return
            if isinstance(op, ast.Mod):
                raise Unsupported("% string formatting")
            raise Unsupported(f"sequence operator {type(op).__name__}")
        if isinstance(l, VTuple) and isinstance(r, VTuple) and isinstance(op, ast.Add):
            yield VTuple(l.items + r.items), st
            return
        l = self.unwrap_opt(l, st, "left operand")
        r = self.unwrap_opt(r, st, "right operand")
        if not (isinstance(l, V) and isinstance(r, V)):
            raise Unsupported(f"binary operator on {type(l).__name__}, {type(r).__name__}")
        if l.sort.kind == "rec" or r.sort.kind == "rec":
            # user-defined operator (e.g. Style.__add__)
            yield from self.call_dunder(l, "__add__" if isinstance(op, ast.Add) else None, [r], st)
            return
        is_real = "real" in (l.sort.kind, r.sort.kind) or isinstance(op, ast.Div)
        if is_real:
            a, b = self.real_of(l), self.real_of(r)
            if isinstance(op, ast.Add):
                yield V(REAL, a + b), st
            elif isinstance(op, ast.Sub):
                yield V(REAL, a - b), st
            elif isinstance(op, ast.Mult):
                yield V(REAL, a * b), st
            elif isinstance(op, ast.Div):
                for e, s2 in self.guard(st, b != 0, "ZeroDivisionError", "division"):
                    yield (e if e is not None else V(REAL, a / b)), s2
            else:
                raise Unsupported(f"float operator {type(op).__name__}")
            return
        a, b = self.as_int(l), self.as_int(r)
        if isinstance(op, ast.Add):
            yield V(INT, a + b), st
        elif isinstance(op, ast.Sub):
            yield V(INT, a - b), st
        elif isinstance(op, ast.Mult):
            yield V(INT, a * b), st
        elif isinstance(op, (ast.FloorDiv, ast.Mod)):
            for e, s2 in self.guard(st, b != self.I(0), "ZeroDivisionError", "integer division"):
                if e is not None:
                    yield e, s2
                    continue
                if z3.is_bv(a):
                    q = z3.If(
                        b > 0,
                        z3.If(a >= 0, a / b, -((-a + b - 1) / b)),
                        z3.If(a <= 0, (-a) / (-b), -((a + (-b) - 1) / (-b))),
                    )
                else:
                    q = z3.If(b > 0, a / b, (-a) / (-b))
                yield V(INT, q if isinstance(op, ast.FloorDiv) else a - b * q), s2
        elif isinstance(op, (ast.BitAnd, ast.BitOr, ast.BitXor)):
            if not z3.is_bv(a):
                if l.sort.kind == "bool" and r.sort.kind == "bool":
                    yield V(BOOL, {ast.BitAnd: z3.And, ast.BitOr: z3.Or, ast.BitXor: z3.Xor}[type(op)](l.t, r.t)), st
                    return
                raise Unsupported("bit operator on mathematical ints (use bv mode)")
            yield V(INT, {ast.BitAnd: a & b, ast.BitOr: a | b, ast.BitXor: a ^ b}[type(op)]), st
        elif isinstance(op, (ast.LShift, ast.RShift)):
            if z3.is_bv(a):
                yield V(INT, a << b if isinstance(op, ast.LShift) else a >> b), st
            else:
                bv = z3.simplify(b)
                if not z3.is_int_value(bv):
                    raise Unsupported("shift by a symbolic amount")
                k = 2 ** bv.as_long()
                yield V(INT, a * k if isinstance(op, ast.LShift) else a / k), st
        elif isinstance(op, ast.Pow):
            bv = z3.simplify(b)
            if z3.is_int_value(bv) and 0 <= bv.as_long() <= 4:
                res = self.I(1)
                for _ in range(bv.as_long()):
                    res = res * a
                yield V(INT, res), st
            else:
                raise Unsupported("power")
        else:
            raise Unsupported(f"operator {type(op).__name__}")

    def box_list(self, vs: VSeq, st) -> VRef:
        from .state import new_ref

        r = new_ref()
        st.heap[r] = vs
        return VRef(r)

    def box_list_global(self, vs: VSeq) -> VRef:
        """module-level constant list: lives in a negative heap slot shared by all states"""
        ref = -(len(self._global_heap) + 1)
        self._global_heap[ref] = vs
        return VRef(ref)

    def ev_BoolOp(self, node, st):
        is_and = isinstance(node.op, ast.And)
        yield from self._boolop(node.values, is_and, st)

    def _boolop(self, values, is_and, st):
        first, rest = values[0], values[1:]
        for v, s in self.ev(first, st):
            if isinstance(v, Exc) or not rest:
                yield v, s
                continue
            tv = z3.simplify(self.truthy(v, s))
            if z3.is_true(tv) or z3.is_false(tv):
                if z3.is_true(tv) == is_and:
                    yield from self._boolop(rest, is_and, s)
                else:
                    yield v, s
                continue
            if all(is_simple(r) for r in rest) or self.spec_mode:
                # no forking: evaluate the rest under the guard (so that its safety obligations and facts
                # are conditional on the short-circuit condition) and merge
                guard_t = tv if is_and else z3.Not(tv)
                sr = s.copy()
                sr.assume(guard_t)
                base_len = len(sr.pc)
                outs = list(self._boolop(rest, is_and, sr))
                if len(outs) == 1 and not isinstance(outs[0][0], Exc):
                    rv, s2 = outs[0]
                    for f in s2.pc[base_len:]:
                        s.assume(z3.Implies(guard_t, f))
                    s.heap.update({k: v for k, v in s2.heap.items() if k not in s.heap})
                    try:
                        v0_, rv0_ = self.deref(v, s), self.deref(rv, s)
                        if (not is_and and isinstance(v0_, V) and v0_.sort.kind == "opt" and isinstance(rv0_, V)
                                and rv0_.sort == v0_.sort.args[0] and rv0_.sort.kind in ("int", "real", "bool", "ostr")):
                            # `x or d` with x Optional[T], d a T: a true x is not None, so the result is a T
                            mv = V(rv0_.sort, z3.If(tv, self.U.z3sort(v0_.sort).val(v0_.t), rv0_.t))
                        else:
                            mv = self.merge(tv, rv, v, s) if is_and else self.merge(tv, v, rv, s)
                    except Unsupported:
                        if self.spec_mode:
                            raise
                        # values of different kinds (e.g. `n > 0 and some_list`): only the truth value
                        # can be merged; that is all a condition needs
                        tr = self.truthy(rv, s2)
                        mv = V(BOOL, z3.And(tv, tr) if is_and else z3.Or(tv, tr))
                        self.notes.append("mixed-kind boolean operator reduced to its truth value")
                    yield mv, s
                    continue
                if self.spec_mode:
                    raise Unsupported("forking boolean operator in spec expression")
            # fork
            s_short = s.copy()
            s_short.assume(z3.Not(tv) if is_and else tv)
            yield v, s_short
            s.assume(tv if is_and else z3.Not(tv))
            yield from self._boolop(rest, is_and, s)

    def merge(self, cond, a, b, st):
        """value `a if cond else b` without forking; raises Unsupported if the kinds cannot be merged"""
        a, b = self.deref(a, st), self.deref(b, st)
        if isinstance(a, V) and isinstance(b, V):
            if a.sort == b.sort:
                if a.sort.kind == "none":
                    return a
                return V(a.sort, z3.If(cond, a.t, b.t))
            ka, kb = a.sort.kind, b.sort.kind
            if {ka, kb} <= {"int", "bool"}:
                # Python `x and 2`-style mixtures: the value is used as an int / truth value
                return V(INT, z3.If(cond, self.as_int(a), self.as_int(b)))
            if "real" in (ka, kb) and {ka, kb} <= {"int", "bool", "real"}:
                return V(REAL, z3.If(cond, self.real_of(a), self.real_of(b)))
            if ka == "none" or kb == "none" or ka == "opt" or kb == "opt":
                inner = a.sort if ka not in ("none", "opt") else (b.sort if kb not in ("none", "opt") else (a.sort.args[0] if ka == "opt" else b.sort.args[0]))
                so = OPT(inner)
                return V(so, z3.If(cond, self.to_term(a, so, st), self.to_term(b, so, st)))
        if isinstance(a, VSeq) and isinstance(b, V) and b.sort.kind in ("none", "opt"):
            so = OPT(a.sort)
            return V(so, z3.If(cond, self.to_term(a, so, st), self.to_term(b, so, st)))
        if isinstance(b, VSeq) and isinstance(a, V) and a.sort.kind in ("none", "opt"):
            so = OPT(b.sort)
            return V(so, z3.If(cond, self.to_term(a, so, st), self.to_term(b, so, st)))
        if isinstance(a, VSeq) and isinstance(b, VSeq) and a.is_str == b.is_str:
            so = a.sort
            return self.from_term(z3.If(cond, self.to_term(a, so, st), self.to_term(b, so, st)), so, st)
        if isinstance(a, VTuple) and isinstance(b, VTuple) and len(a.items) == len(b.items):
            return VTuple([self.merge(cond, x, y, st) for x, y in zip(a.items, b.items)])
        raise Unsupported(f"cannot merge {type(a).__name__}/{type(b).__name__} values")

    def ev_IfExp(self, node, st):
        for c, s in self.ev(node.test, st):
            if isinstance(c, Exc):
                yield c, s
                continue
            tv = z3.simplify(self.truthy(c, s))
            if z3.is_true(tv):
                yield from self.ev(node.body, s)
                continue
            if z3.is_false(tv):
                yield from self.ev(node.orelse, s)
                continue
            # try to evaluate both branches under their guards and merge the values (no path split);
            # facts and obligations of each branch are conditional on its guard
            merged = None
            n_obl = len(self.obligs)
            try:
                sa = s.copy(); sa.assume(tv); la = len(sa.pc)
                oa = list(self.ev(node.body, sa))
                sb = s.copy(); sb.assume(z3.Not(tv)); lb = len(sb.pc)
                ob = list(self.ev(node.orelse, sb))
                if len(oa) == 1 and len(ob) == 1 and not isinstance(oa[0][0], Exc) and not isinstance(ob[0][0], Exc):
                    va, sa2 = oa[0]
                    vb, sb2 = ob[0]
                    tmp = s.copy()
                    tmp.heap.update({r_: o_ for r_, o_ in sa2.heap.items() if r_ not in tmp.heap})
                    tmp.heap.update({r_: o_ for r_, o_ in sb2.heap.items() if r_ not in tmp.heap})
                    mv = self.merge(tv, va, vb, tmp)
                    for f in sa2.pc[la:]:
                        s.assume(z3.Implies(tv, f))
                    for f in sb2.pc[lb:]:
                        s.assume(z3.Implies(z3.Not(tv), f))
                    for f in tmp.pc[len(s.pc) - len(sa2.pc[la:]) - len(sb2.pc[lb:]):]:
                        pass
                    s.heap.update({r_: o_ for r_, o_ in tmp.heap.items() if r_ not in s.heap})
                    for f in tmp.pc:
                        if not any(f is g for g in s.pc):
                            s.assume(f)
                    merged = mv
            except Unsupported:
                merged = None
            if merged is not None:
                yield merged, s
                continue
            del self.obligs[n_obl:]
            if self.spec_mode:
                raise Unsupported("forking conditional in spec expression")
            s2 = s.copy()
            s.assume(tv)
            yield from self.ev(node.body, s)
            s2.assume(z3.Not(tv))
            yield from self.ev(node.orelse, s2)

    # ------------------------------------------------------------------ comparisons
    def ev_Compare(self, node, st):
        nodes = [node.left] + list(node.comparators)
        for vals, s in self.ev_list(nodes, st):
            if isinstance(vals, Exc):
                yield vals, s
                continue
            terms = []
            for op, a, b in zip(node.ops, vals, vals[1:]):
                terms.append(self.compare(op, a, b, s))
            yield V(BOOL, z3.simplify(z3.And(*terms)) if len(terms) > 1 else terms[0]), s

    def compare(self, op, a, b, st):
        a, b = self.deref(a, st), self.deref(b, st)
        if isinstance(op, (ast.Is, ast.IsNot)):
            if isinstance(b, V) and b.sort.kind == "none":
                r = self.is_none(a, st)
            elif isinstance(a, V) and a.sort.kind == "none":
                r = self.is_none(b, st)
            else:
                r = self.val_eq(a, b, st)
            return z3.Not(r) if isinstance(op, ast.IsNot) else r
        if isinstance(op, (ast.Eq, ast.NotEq)):
            r = self.val_eq(a, b, st)
            return z3.Not(r) if isinstance(op, ast.NotEq) else r
        if isinstance(op, (ast.In, ast.NotIn)):
            r = self.contains(b, a, st)
            return z3.Not(r) if isinstance(op, ast.NotIn) else r
        a = self.unwrap_opt(a, st, "comparison operand")
        b = self.unwrap_opt(b, st, "comparison operand")
        if not (isinstance(a, V) and isinstance(b, V)):
            raise Unsupported("ordering comparison of non-scalars")
        if self.spec_mode and "none" in (a.sort.kind, b.sort.kind):
            return z3.Bool(fresh_name("unspecified"))  # partial operation outside its domain (spec logic is total)
        if "real" in (a.sort.kind, b.sort.kind):
            x, y = self.real_of(a), self.real_of(b)
        else:
            x, y = self.as_int(a), self.as_int(b)
        if isinstance(op, ast.Lt):
            return x < y
        if isinstance(op, ast.LtE):
            return x <= y
        if isinstance(op, ast.Gt):
            return x > y
        if isinstance(op, ast.GtE):
            return x >= y
        raise Unsupported("comparison operator")

    def val_eq(self, a, b, st):
        a, b = self.deref(a, st), self.deref(b, st)
        if isinstance(a, V) and a.sort.kind in ("str", "list"):
            a = self.from_term(a.t, a.sort, st)
        if isinstance(b, V) and b.sort.kind in ("str", "list"):
            b = self.from_term(b.t, b.sort, st)
        if isinstance(a, VSeq) and isinstance(b, VSeq):
            if a.elem.kind in ("str", "list") or b.elem.kind in ("str", "list"):
                raise Unsupported("equality of nested sequences")
            return seqs.seq_eq(a, b)
        if isinstance(a, VTuple) and isinstance(b, VTuple):
            if len(a.items) != len(b.items):
                return z3.BoolVal(False)
            return z3.And(*[self.val_eq(x, y, st) for x, y in zip(a.items, b.items)]) if a.items else z3.BoolVal(True)
        if isinstance(a, VTuple) and isinstance(b, V) and b.sort.kind == "tuple":
            b = self.from_term(b.t, b.sort, st)
            return self.val_eq(a, b, st)
        if isinstance(b, VTuple) and isinstance(a, V) and a.sort.kind == "tuple":
            return self.val_eq(b, a, st)
        if isinstance(a, ObjState) or isinstance(b, ObjState):
            if isinstance(a, ObjState):
                a = V(Sort("rec", (), a.cls), self.to_term(a, Sort("rec", (), a.cls), st))
            if isinstance(b, ObjState):
                b = V(Sort("rec", (), b.cls), self.to_term(b, Sort("rec", (), b.cls), st))
        if isinstance(a, V) and isinstance(b, V):
            ka, kb = a.sort.kind, b.sort.kind
            if ka == "none" or kb == "none":
                return self.is_none(b if ka == "none" else a, st)
            if ka == "opt" or kb == "opt":
                if ka == "opt" and kb == "opt":
                    if a.sort != b.sort:
                        raise Unsupported("equality of different Optional sorts")
                    da = self.U.z3sort(a.sort)
                    inner_eq = self.val_eq(self.from_term(da.val(a.t), a.sort.args[0], st), self.from_term(da.val(b.t), b.sort.args[0], st), st)
                    return z3.Or(z3.And(da.is_none(a.t), da.is_none(b.t)), z3.And(da.is_some(a.t), da.is_some(b.t), inner_eq))
                o, x = (a, b) if ka == "opt" else (b, a)
                do = self.U.z3sort(o.sort)
                return z3.And(do.is_some(o.t), self.val_eq(self.from_term(do.val(o.t), o.sort.args[0], st), x, st))
            if ka == "rec" and kb == "rec":
                if a.sort != b.sort:
                    return z3.BoolVal(False)
                eqf = self.reg.specfns.get(f"eq_{a.sort.name}")
                if eqf is not None:
                    return self.truthy(self.eval_spec_text(eqf.body, {eqf.params[0]: a, eqf.params[1]: b}, st), st)
                decl = self.U.records[a.sort.name]
                parts = [self.val_eq(self.rec_field(a, f, st), self.rec_field(b, f, st), st) for f, _ in decl.fields]
                return z3.And(*parts) if parts else z3.BoolVal(True)
            if ka == "tuple" and kb == "tuple":
                return self.val_eq(self.from_term(a.t, a.sort, st), self.from_term(b.t, b.sort, st), st)
            if ka == "ostr" and kb == "ostr":
                return a.t == b.t
            if ka == "dict" and kb == "dict":
                return a.t == b.t if a.sort == b.sort else z3.BoolVal(False)
            if ka == "opaque" and kb == "opaque":
                return a.t == b.t if a.sort == b.sort else z3.BoolVal(False)
            if {ka, kb} <= {"int", "bool", "real"}:
                if "real" in (ka, kb):
                    return self.real_of(a) == self.real_of(b)
                if ka == "bool" and kb == "bool":
                    return a.t == b.t
                return self.as_int(a) == self.as_int(b)
            return z3.BoolVal(False)
        for x, y in ((a, b), (b, a)):
            if isinstance(x, VSeq) and x.is_str and isinstance(y, V) and y.sort.kind == "ostr":
                return self.ostr_of(x, st) == y.t
            if isinstance(x, VSeq) and x.is_str and isinstance(y, V) and y.sort.kind == "opt" and y.sort.args[0].kind == "ostr":
                dy = self.U.z3sort(y.sort)
                return z3.And(dy.is_some(y.t), dy.val(y.t) == self.ostr_of(x, st))
        if isinstance(a, (VSeq, VTuple)) or isinstance(b, (VSeq, VTuple)):
            # e.g. str == None
            return z3.BoolVal(False)
        raise Unsupported(f"equality of {type(a).__name__} and {type(b).__name__}")

    def contains(self, container, item, st):
        container = self.deref(container, st)
        if isinstance(container, VTuple):
            return z3.Or(*[self.val_eq(x, item, st) for x in container.items]) if container.items else z3.BoolVal(False)
        if isinstance(container, V) and container.sort.kind in ("str", "list"):
            container = self.from_term(container.t, container.sort, st)
        if isinstance(container, VSeq) and not container.is_str:
            k = z3.Int(fresh_name("ink"))
            ev = self.from_term(seqs.seq_elem(container, k), container.elem, st)
            return z3.Exists([k], z3.And(0 <= k, k < container.length(), self.val_eq(ev, item, st)))
        if isinstance(container, VSeq) and container.is_str and seqs.lit_value(container) is None:
            it0 = self.deref(item, st)
            if isinstance(it0, VSeq) and it0.is_str:
                li = seqs.lit_value(it0)
                if li is not None and len(li) == 1:
                    # a literal character in a symbolic string
                    k = z3.Int(fresh_name("ink"))
                    return z3.Exists([k], z3.And(0 <= k, k < container.length(), seqs.seq_elem(container, k) == ord(li)))
        if isinstance(container, VSeq) and container.is_str:
            lv = seqs.lit_value(container)
            item = self.deref(item, st)
            if isinstance(item, VSeq) and item.is_str:
                n = z3.simplify(item.length())
                if lv is not None and z3.is_int_value(n) and n.as_long() == 1:
                    ch = seqs.seq_elem(item, z3.IntVal(0))
                    return z3.Or(*[ch == ord(c) for c in lv]) if lv else z3.BoolVal(False)
        if hasattr(self, "dict_contains"):
            r = self.dict_contains(container, item, st)
            if r is not None:
                return r
        raise Unsupported("`in` on this container")

    # ------------------------------------------------------------------ subscripts / attributes
    def ev_Subscript(self, node, st):
        for base, s in self.ev(node.value, st):
            if isinstance(base, Exc):
                yield base, s
                continue
            if isinstance(node.slice, ast.Slice):
                sl = node.slice
                if sl.step is not None:
                    stepv = sl.step
                    if isinstance(stepv, ast.UnaryOp) and isinstance(stepv.op, ast.USub) and isinstance(stepv.operand, ast.Constant) and stepv.operand.value == 1 and sl.lower is None and sl.upper is None:
                        yield self.reverse_seq(base, s), s
                        continue
                    raise Unsupported("slice step")
                parts = [x for x in (sl.lower, sl.upper) if x is not None]
                for vals, s2 in self.ev_list(parts, s):
                    if isinstance(vals, Exc):
                        yield vals, s2
                        continue
                    it = iter(vals)
                    lo = next(it) if sl.lower is not None else None
                    hi = next(it) if sl.upper is not None else None
                    yield self.do_slice(base, lo, hi, s2), s2
                continue
            for idx, s2 in self.ev(node.slice, s):
                if isinstance(idx, Exc):
                    yield idx, s2
                    continue
                yield from self.do_index(base, idx, s2)

    def as_seq(self, v, st, why="sequence") -> VSeq:
        v = self.unwrap_opt(v, st, why)
        v = self.deref(v, st)
        if isinstance(v, VSeq):
            return v
        if isinstance(v, V) and v.sort.kind in ("str", "list"):
            return self.from_term(v.t, v.sort, st)
        if isinstance(v, VTuple):
            if not v.items:
                return VSeq(Sort("any"), [])
            return self.tuple_to_seq(v, self.sort_of(v.items[0], st), st)
        raise Unsupported(f"{why}: not a sequence ({type(v).__name__})")

    def elem_value(self, vs: VSeq, i, st):
        if not vs.pieces:
            # reading an empty sequence is guarded by the caller's bounds obligation: any value will do
            so = INT if vs.is_str or vs.elem.kind == "any" else vs.elem
            if vs.is_str:
                return VSeq(INT, [Piece("lit", items=[z3.Int(fresh_name("nochar"))])], is_str=True)
            return self.fresh(so, "noelem", st, as_ref=False)
        t = seqs.seq_elem(vs, i)
        if vs.is_str:
            # a character: one-element string
            return VSeq(INT, [Piece("lit", items=[t])], is_str=True)
        val = self.from_term(t, vs.elem, st)
        self.elem_facts(vs, i, st)
        return val

    def elem_facts(self, vs: VSeq, i, st):
        """ground unfolding instances of the prefix-sum functions at a read index"""
        return  # the select-triggered unfolding axioms of seqs.global_axioms() make ground instances redundant

    def do_index(self, base, idx, st):
        b0 = self.deref(base, st)
        if isinstance(b0, V) and b0.sort.kind == "opt":
            base = self.unwrap_opt(b0, st, "subscripted value")
            b0 = self.deref(base, st)
        if isinstance(b0, V) and b0.sort.kind == "tuple":
            b0 = self.from_term(b0.t, b0.sort, st)
        if isinstance(b0, VTuple):
            iv = z3.simplify(self.to_mathint(self.as_int(self.deref(idx, st))))
            if z3.is_int_value(iv):
                k = iv.as_long()
                if -len(b0.items) <= k < len(b0.items):
                    yield b0.items[k], st
                    return
            raise Unsupported("symbolic index into a tuple")
        if hasattr(self, "dict_getitem"):
            r = self.dict_getitem(b0, idx, st, base)
            if r is not None:
                yield from r
                return
        if isinstance(b0, V) and b0.sort.kind == "rec":
            mod_, cls_ = self.class_of_record(b0.sort.name)
            if mod_ is not None and f"{cls_}.__getitem__" in mod_.funcs:
                yield from self.call_function(mod_, f"{cls_}.__getitem__", [b0, idx], {}, st)
                return
            iv = z3.simplify(self.to_mathint(self.as_int(self.deref(idx, st))))
            decl = self.U.records[b0.sort.name]
            if z3.is_int_value(iv) and 0 <= iv.as_long() < len(decl.positional):
                yield self.rec_field(b0, decl.positional[iv.as_long()], st), st
                return
            raise Unsupported("index into a record")
        vs = self.as_seq(base, st, "subscript")
        idx = self.unwrap_opt(idx, st, "index")
        i = self.to_mathint(self.as_int(self.deref(idx, st)))
        n = vs.length()
        j = i if self.known_nonneg(i, st) else z3.simplify(z3.If(i < 0, i + n, i))
        for e, s2 in self.guard(st, z3.And(0 <= j, j < n), "IndexError", "sequence index in range"):
            if e is not None:
                yield e, s2
            else:
                if vs.is_str:
                    self.elem_facts(vs, j, s2)
                yield self.elem_value(vs, j, s2), s2

    def known_nonneg(self, i, st) -> bool:
        i = z3.simplify(i)
        if z3.is_int_value(i):
            return i.as_long() >= 0
        if z3.is_app(i) and i.decl().kind() == z3.Z3_OP_ADD:
            return all(self.known_nonneg(c, st) for c in i.children())
        if z3.is_const(i) and i.decl().kind() == z3.Z3_OP_UNINTERPRETED:
            for f in reversed(st.pc[-12:]):
                for g in (f.children() if z3.is_and(f) else [f]):
                    if z3.is_app(g) and g.num_args() == 2:
                        a, b = g.arg(0), g.arg(1)
                        k = g.decl().kind()
                        if k == z3.Z3_OP_LE and b.eq(i) and z3.is_int_value(a) and a.as_long() >= 0:
                            return True
                        if k == z3.Z3_OP_GE and a.eq(i) and z3.is_int_value(b) and b.as_long() >= 0:
                            return True
        return False

    def do_slice(self, base, lo, hi, st):
        b0 = self.deref(base, st)
        if isinstance(b0, VTuple):
            def cv(x):
                if x is None:
                    return None
                t = z3.simplify(self.to_mathint(self.as_int(self.deref(x, st))))
                if not z3.is_int_value(t):
                    raise Unsupported("symbolic slice of tuple")
                return t.as_long()
            return VTuple(b0.items[cv(lo):cv(hi)])
        vs = self.as_seq(base, st, "slice")
        n = vs.length()
        lo_t = z3.IntVal(0) if lo is None else seqs.norm_index(self.to_mathint(self.as_int(self.deref(self.unwrap_opt(lo, st, "slice bound"), st))), n)
        hi_t = n if hi is None else seqs.norm_index(self.to_mathint(self.as_int(self.deref(self.unwrap_opt(hi, st, "slice bound"), st))), n)
        facts: list = []
        ez = z3.IntSort() if vs.is_str else (self.U.z3sort(vs.elem) if vs.elem.kind != "any" else z3.IntSort())
        res = seqs.slice_(vs, z3.simplify(lo_t), z3.simplify(hi_t), facts, ez)
        for f in facts:
            st.assume(f)
        return res if res.is_str else self.box_list(res, st)

    def reverse_seq(self, base, st):
        vs = self.as_seq(base, st, "reverse")
        n = vs.length()
        ez = z3.IntSort() if vs.is_str else self.U.z3sort(vs.elem)
        arr = z3.Const(fresh_name("rev"), z3.ArraySort(z3.IntSort(), ez))
        k = z3.Int(fresh_name("k"))
        st.assume(z3.ForAll([k], z3.Implies(z3.And(0 <= k, k < n), arr[k] == seqs.seq_elem(vs, n - 1 - k)), patterns=[arr[k]]))
        res = seqs.view(arr, z3.IntVal(0), n, vs.elem, is_str=vs.is_str)
        res._rev_of = vs  # type: ignore
        return res if res.is_str else self.box_list(res, st)

    def ev_Attribute(self, node, st):
        # `lines[-1].append` on a local list of lists: a *tail alias* (see tail_alias_* in exec_call) - the bound method of
        # the container's last element; calling it appends to that element as long as the container has not been
        # restructured since (checked at the call)
        v = node.value
        if (node.attr == "append" and isinstance(v, ast.Subscript) and isinstance(v.value, ast.Name)
                and isinstance(v.slice, ast.UnaryOp) and isinstance(v.slice.op, ast.USub)
                and isinstance(v.slice.operand, ast.Constant) and v.slice.operand.value == 1):
            cont = st.env.get(v.value.id)
            cur = st.heap.get(cont.ref) if isinstance(cont, VRef) else None
            if isinstance(cur, VSeq) and not cur.is_str and cur.elem.kind == "list":
                yield from self.tail_alias_new(cont, st)
                return
        for base, s in self.ev(node.value, st):
            if isinstance(base, Exc):
                yield base, s
                continue
            yield from self.get_attr(base, node.attr, s)

    def ev_Lambda(self, node, st):
        yield VFunc("lambda", data=(node, dict(st.env))), st

    def ev_Starred(self, node, st):
        raise Unsupported("starred expression outside a call")
