"""Rope / sequence operations over z3 arrays (strings and lists).

Global uninterpreted functions:
  W(cp)            cell width of a code point (range {0,1,2}; 1 on printable ASCII: data obligations)
  pcell(arr, i)    prefix sum of W over a code-point array     (cells(s[lo:hi]) = pcell(hi)-pcell(lo))
  psum(arr, i)     prefix sum of an int array                  (sum(l[lo:hi]) = psum(hi)-psum(lo))
Unfolding instances are added by the engine whenever an element is read; the quantified
unfolding axioms and the monotonicity lemma are added to every VC that mentions the function.
"""
from __future__ import annotations

import z3

from .sorts import INT, Piece, VSeq, V, fresh_name, Unsupported

IntArr = z3.ArraySort(z3.IntSort(), z3.IntSort())
W = z3.Function("W", z3.IntSort(), z3.IntSort())
pcell = z3.Function("pcell", IntArr, z3.IntSort(), z3.IntSort())
psum = z3.Function("psum", IntArr, z3.IntSort(), z3.IntSort())


RealArr = z3.ArraySort(z3.IntSort(), z3.RealSort())
rpsum = z3.Function("rpsum", RealArr, z3.IntSort(), z3.RealSort())


def rpsum_nonneg_lemma(a, lo, hi):
    """real-valued analogue of psum_nonneg_lemma (same induction)"""
    k = z3.Int(fresh_name("rk"))
    nonneg = z3.ForAll([k], z3.Implies(z3.And(lo <= k, k < hi), a[k] >= 0), patterns=[a[k]])
    return z3.Implies(z3.And(nonneg, lo <= hi), rpsum(a, hi) - rpsum(a, lo) >= 0)


def global_axioms():
    """Axioms about W / pcell / psum (names are reported in the evidence's trusted base)."""
    a = z3.Const("a!ax", IntArr)
    i = z3.Int("i!ax")
    j = z3.Int("j!ax")
    c = z3.Int("c!ax")
    ax = {}
    ax["W.range"] = z3.ForAll([c], z3.And(W(c) >= 0, W(c) <= 2), patterns=[W(c)])
    ax["W.ascii"] = z3.ForAll([c], z3.Implies(z3.And(c >= 32, c < 127), W(c) == 1), patterns=[W(c)])
    ax["pcell.unfold"] = z3.ForAll(
        [a, i], pcell(a, i + 1) == pcell(a, i) + W(a[i]), patterns=[a[i]]
    )
    ax["pcell.mono"] = z3.ForAll(
        [a, i, j],
        z3.Implies(i <= j, z3.And(pcell(a, j) - pcell(a, i) >= 0, pcell(a, j) - pcell(a, i) <= 2 * (j - i))),
        patterns=[z3.MultiPattern(pcell(a, i), pcell(a, j))],
    )
    ax["psum.unfold"] = z3.ForAll(
        [a, i], psum(a, i + 1) == psum(a, i) + a[i], patterns=[a[i]]
    )
    ra = z3.Const("ra!ax", RealArr)
    ax["rpsum.unfold"] = z3.ForAll([ra, i], rpsum(ra, i + 1) == rpsum(ra, i) + ra[i], patterns=[ra[i]])
    return ax


def mentions(term, fn) -> bool:
    seen = set()
    stack = [term]
    while stack:
        t = stack.pop()
        if t.get_id() in seen:
            continue
        seen.add(t.get_id())
        if z3.is_app(t) and t.decl().eq(fn):
            return True
        if z3.is_quantifier(t):
            stack.append(t.body())
        else:
            stack.extend(t.children())
    return False


# ----------------------------------------------------------------------------------- ropes


def lit_str(s: str) -> VSeq:
    return VSeq(INT, [Piece("lit", items=[z3.IntVal(ord(ch)) for ch in s])] if s else [], is_str=True)


def lit_value(vs: VSeq):
    """Python str if the rope is entirely literal, else None."""
    out = []
    for p in vs.pieces:
        if p.kind == "lit" and all(z3.is_int_value(x) for x in p.items):
            out.extend(chr(x.as_long()) for x in p.items)
        elif p.kind == "rep" and z3.is_int_value(p.a) and z3.is_int_value(z3.simplify(p.hi)):
            out.extend(chr(p.a.as_long()) * z3.simplify(p.hi).as_long())
        else:
            return None
    return "".join(out)


def view(arr, lo, hi, elem, is_str=False) -> VSeq:
    return VSeq(elem, [Piece("view", a=arr, lo=lo, hi=hi)], is_str=is_str)


def piece_elem(p: Piece, k):
    """element at piece-relative index k"""
    if p.kind == "view":
        return p.a[p.lo + k]
    if p.kind == "rep":
        return p.a
    if p.kind == "reps":
        k = k % len(p.items)
    # literal: chain of ifs
    r = p.items[-1]
    for idx in range(len(p.items) - 2, -1, -1):
        r = z3.If(k == idx, p.items[idx], r)
    return r


def seq_elem(vs: VSeq, i):
    """element term at index i (0 <= i < len is the caller's obligation)"""
    if not vs.pieces:
        raise Unsupported("element of empty literal sequence")
    off = z3.IntVal(0)
    terms = []
    for p in vs.pieces:
        terms.append((off, p))
        off = off + p.length()
    r = piece_elem(terms[-1][1], i - terms[-1][0])
    for o, p in reversed(terms[:-1]):
        r = z3.If(i < o + p.length(), piece_elem(p, i - o), r)
    return z3.simplify(r)


def concat(a: VSeq, b: VSeq) -> VSeq:
    pieces = list(a.pieces)
    for p in b.pieces:
        if pieces and pieces[-1].kind == "lit" and p.kind == "lit":
            pieces[-1] = Piece("lit", items=pieces[-1].items + p.items)
        else:
            pieces.append(p)
    return VSeq(a.elem, pieces, is_str=a.is_str or b.is_str)


def repeat(vs: VSeq, n) -> VSeq:
    """vs * n for a one-element literal / rep rope (n clamped at 0)"""
    n = z3.If(n > 0, n, 0) if not z3.is_int_value(z3.simplify(n)) else z3.IntVal(max(0, z3.simplify(n).as_long()))
    if not vs.pieces:
        return VSeq(vs.elem, [], is_str=vs.is_str)
    if len(vs.pieces) == 1:
        p = vs.pieces[0]
        if p.kind == "lit" and len(p.items) == 1:
            return VSeq(vs.elem, [Piece("rep", a=p.items[0], hi=z3.simplify(n))], is_str=vs.is_str)
        if p.kind == "rep":
            return VSeq(vs.elem, [Piece("rep", a=p.a, hi=z3.simplify(p.hi * n))], is_str=vs.is_str)
    if all(p.kind == "lit" for p in vs.pieces):
        items = [it for p in vs.pieces for it in p.items]
        return VSeq(vs.elem, [Piece("reps", items=items, hi=z3.simplify(n))], is_str=vs.is_str)
    nv = z3.simplify(n)
    if z3.is_int_value(nv) and nv.as_long() <= 8:
        r = VSeq(vs.elem, [], is_str=vs.is_str)
        for _ in range(nv.as_long()):
            r = concat(r, vs)
        return r
    raise Unsupported("repetition of a multi-element sequence by a symbolic count")


def norm_index(i, n):
    """Python slice-bound normalisation of an int index against length n"""
    return z3.If(i < 0, z3.If(i + n < 0, 0, i + n), z3.If(i > n, n, i))


def materialize(vs: VSeq, facts: list, elem_z3):
    """Return (arr, len) with arr[i] == vs[i] on 0 <= i < len; defining facts appended to `facts`."""
    if len(vs.pieces) == 1 and vs.pieces[0].kind == "view":
        p = vs.pieces[0]
        if z3.is_int_value(z3.simplify(p.lo)) and z3.simplify(p.lo).as_long() == 0:
            return p.a, p.hi
    arr = z3.Const(fresh_name("mat"), z3.ArraySort(z3.IntSort(), elem_z3))
    off = z3.IntVal(0)
    k = z3.Int(fresh_name("k"))
    for p in vs.pieces:
        if p.kind == "lit":
            for idx, it in enumerate(p.items):
                facts.append(arr[z3.simplify(off + idx)] == it)
        else:
            body = z3.Implies(z3.And(off <= k, k < off + p.length()), arr[k] == piece_elem(p, k - off))
            facts.append(z3.ForAll([k], body, patterns=[arr[k]]))
        if vs.is_str:
            # lemma instance (sum congruence, proved by induction on the length; see DESIGN 4.6)
            facts.append(pcell(arr, z3.simplify(off + p.length())) - pcell(arr, off) == piece_cells(p, facts))
        elif vs.elem == INT and elem_z3 == z3.IntSort():
            facts.append(psum(arr, z3.simplify(off + p.length())) - psum(arr, off) == piece_sum(p, []))
        off = z3.simplify(off + p.length())
    return arr, off


def piece_cells(p: Piece, facts: list):
    if p.kind == "view":
        return pcell(p.a, p.hi) - pcell(p.a, p.lo)
    if p.kind == "rep":
        return p.hi * W(p.a)
    if p.kind == "reps":
        unit = z3.IntVal(0)
        for it in p.items:
            unit = unit + W(it)
        return p.hi * unit
    r = z3.IntVal(0)
    for it in p.items:
        r = r + W(it)
    return r


def cells(vs: VSeq, facts: list):
    r = z3.IntVal(0)
    for p in vs.pieces:
        r = r + piece_cells(p, facts)
    return z3.simplify(r)


def psum_nonneg_lemma(a, lo, hi, with_nonpos=False):
    """Lemma instance, valid for every int array a and bounds lo, hi (proof by induction on hi - lo; the
    base case and induction step are machine-checked on every run by vf.pyvc.lemmalib): if a is non-negative on [lo, hi) then the
    sum over [lo, hi) is non-negative and bounds every element of the range."""
    k = z3.Int(fresh_name("mk"))
    e = z3.Int(fresh_name("me"))
    k2 = z3.Int(fresh_name("mk"))
    nonneg = z3.ForAll([k], z3.Implies(z3.And(lo <= k, k < hi), a[k] >= 0), patterns=[a[k]])
    nonpos = z3.ForAll([k2], z3.Implies(z3.And(lo <= k2, k2 < hi), a[k2] <= 0), patterns=[a[k2]])
    total = psum(a, hi) - psum(a, lo)
    bound = z3.ForAll([e], z3.Implies(z3.And(lo <= e, e < hi), a[e] <= total), patterns=[a[e]])
    # second half (same induction): non-positive on [lo, hi) => the sum is non-positive
    if not with_nonpos:
        return z3.Implies(nonneg, z3.And(z3.Implies(lo <= hi, total >= 0), bound))
    return z3.And(z3.Implies(nonneg, z3.And(z3.Implies(lo <= hi, total >= 0), bound)),
                  z3.Implies(z3.And(nonpos, lo <= hi), total <= 0))


def piece_sum(p: Piece, facts: list):
    if p.kind == "view":
        facts.append(("psum_nonneg", p.a, p.lo, p.hi))
        return psum(p.a, p.hi) - psum(p.a, p.lo)
    if p.kind == "rep":
        return p.hi * p.a
    r = z3.IntVal(0)
    for it in p.items:
        r = r + it
    return r


def lsum(vs: VSeq, facts: list):
    r = z3.IntVal(0)
    for p in vs.pieces:
        r = r + piece_sum(p, facts)
    return z3.simplify(r)


def slice_(vs: VSeq, lo, hi, facts: list, elem_z3) -> VSeq:
    """vs[lo:hi] with already-normalised 0 <= lo, hi <= len (hi < lo gives the empty slice)."""
    hi = z3.If(hi < lo, lo, hi)
    if len(vs.pieces) == 1 and vs.pieces[0].kind == "view":
        p = vs.pieces[0]
        return VSeq(vs.elem, [Piece("view", a=p.a, lo=z3.simplify(p.lo + lo), hi=z3.simplify(p.lo + hi))], is_str=vs.is_str)
    if len(vs.pieces) == 1 and vs.pieces[0].kind == "rep":
        p = vs.pieces[0]
        return VSeq(vs.elem, [Piece("rep", a=p.a, hi=z3.simplify(hi - lo))], is_str=vs.is_str)
    if not vs.pieces:
        return vs
    lv = lit_value(vs) if vs.is_str else None
    slo, shi = z3.simplify(lo), z3.simplify(hi)
    if all(p.kind == "lit" for p in vs.pieces) and z3.is_int_value(slo) and z3.is_int_value(shi):
        items = [it for p in vs.pieces for it in p.items][slo.as_long() : shi.as_long()]
        return VSeq(vs.elem, [Piece("lit", items=items)] if items else [], is_str=vs.is_str)
    arr, n = materialize(vs, facts, elem_z3)
    return VSeq(vs.elem, [Piece("view", a=arr, lo=z3.simplify(lo), hi=z3.simplify(hi))], is_str=vs.is_str)


def seq_eq(a: VSeq, b: VSeq):
    """z3 Bool: extensional equality of two ropes"""
    la, lb = lit_value(a) if a.is_str else None, lit_value(b) if b.is_str else None
    if la is not None and lb is not None:
        return z3.BoolVal(la == lb)
    na, nb = a.length(), b.length()
    if not a.pieces or not b.pieces:
        return na == nb
    # structurally identical ropes
    if len(a.pieces) == len(b.pieces) and all(_same_piece(p, q) for p, q in zip(a.pieces, b.pieces)):
        return z3.BoolVal(True)
    # same shape up to the repetition counts of `reps` pieces (unit non-empty): equal iff the counts agree
    if len(a.pieces) == len(b.pieces) and all(
        _same_piece(p, q) or (p.kind == q.kind == "reps" and len(p.items) == len(q.items) and len(p.items) > 0
                              and all(z3.simplify(x).eq(z3.simplify(y)) for x, y in zip(p.items, q.items)))
        for p, q in zip(a.pieces, b.pieces)
    ) and sum(1 for p in a.pieces if p.kind == "reps") == 1:
        conds = [z3.If(p.hi > 0, p.hi, 0) == z3.If(q.hi > 0, q.hi, 0) for p, q in zip(a.pieces, b.pieces) if p.kind == "reps" and not _same_piece(p, q)]
        return z3.And(*conds) if conds else z3.BoolVal(True)
    # a literal of known length against a symbolic rope: pointwise
    for x, y in ((a, b), (b, a)):
        nx = z3.simplify(x.length())
        if z3.is_int_value(nx) and nx.as_long() <= 64:
            n = nx.as_long()
            return z3.And(y.length() == n, *[seq_elem(x, z3.IntVal(k)) == seq_elem(y, z3.IntVal(k)) for k in range(n)])
    k = z3.Int(fresh_name("eqk"))
    return z3.And(
        na == nb,
        z3.ForAll([k], z3.Implies(z3.And(0 <= k, k < na), seq_elem(a, k) == seq_elem(b, k))),
    )


def _same_piece(p: Piece, q: Piece) -> bool:
    if p.kind != q.kind:
        return False
    if p.kind == "reps":
        return len(p.items) == len(q.items) and all(z3.simplify(x).eq(z3.simplify(y)) for x, y in zip(p.items, q.items)) and z3.simplify(p.hi).eq(z3.simplify(q.hi))
    if p.kind == "view":
        return p.a.eq(q.a) and z3.simplify(p.lo).eq(z3.simplify(q.lo)) and z3.simplify(p.hi).eq(z3.simplify(q.hi))
    if p.kind == "rep":
        return z3.simplify(p.a).eq(z3.simplify(q.a)) and z3.simplify(p.hi).eq(z3.simplify(q.hi))
    return len(p.items) == len(q.items) and all(z3.simplify(x).eq(z3.simplify(y)) for x, y in zip(p.items, q.items))
