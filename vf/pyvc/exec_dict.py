"""Dictionaries as total maps key -> Optional[value] (z3 arrays).  Trusted built-in contracts (A2):
get / [] / in / []= / del / copy / {**a, **b} / {} ; iteration and len are not modelled."""
from __future__ import annotations

import ast

import z3

from .sorts import *  # noqa
from .state import Exc, State, new_ref


def DICT(k: Sort, v: Sort) -> Sort:
    return Sort("dict", (k, v))


class DictMixin:
    # sort plumbing -----------------------------------------------------------------------------
    def dict_z3sort(self, so: Sort):
        return z3.ArraySort(self.U.z3sort(so.args[0]), self.U.z3sort(OPT(so.args[1])))

    def is_dict(self, v) -> bool:
        return isinstance(v, V) and v.sort.kind == "dict"

    def dict_cur(self, d, st):
        d0 = self.deref(d, st)
        if isinstance(d0, V) and d0.sort.kind == "opt" and d0.sort.args[0].kind == "dict":
            d0 = self.deref(self.unwrap_opt(d0, st, "dict"), st)
        return d0 if self.is_dict(d0) else None

    def dict_key(self, d: V, k, st):
        return self.to_term(k, d.sort.args[0], st)

    def dict_lookup(self, d: V, k, st):
        """Optional[value] term"""
        return d.t[self.dict_key(d, k, st)]

    # hooks called by the expression / statement mixins ------------------------------------------
    def dict_contains(self, container, item, st):
        d = self.dict_cur(container, st)
        if d is None:
            return None
        return self.U.z3sort(OPT(d.sort.args[1])).is_some(self.dict_lookup(d, item, st))

    def dict_getitem(self, b0, idx, st, base=None):
        d = self.dict_cur(b0, st)
        if d is None:
            return None
        return self._dict_getitem(d, idx, st, base)

    def _dict_getitem(self, d, idx, st, base=None):
        o = self.dict_lookup(d, idx, st)
        key = self.dict_key(d, idx, st)
        osort = OPT(d.sort.args[1])
        dt = self.U.z3sort(osort)
        vs = d.sort.args[1]
        for e, s2 in self.guard(st, dt.is_some(o), "KeyError", "key present"):
            if e is not None:
                yield e, s2
            elif vs.kind == "rec" and self.U.records[vs.name].mutable and isinstance(base, VRef):
                # element of a container of mutable objects: thaw it into a heap object; it is written
                # back into the container before any clause / callee looks at the container again
                yield self.thaw(dt.val(o), vs, s2, (base.ref, key)), s2
            else:
                yield self.from_term(dt.val(o), vs, s2), s2

    def thaw(self, term, so: Sort, st, origin):
        for dref, key, oref in st.writebacks:
            if dref == origin[0] and z3.simplify(key).eq(z3.simplify(origin[1])):
                return VRef(oref)
        decl = self.U.records[so.name]
        dt = self.U.z3sort(so)
        r = new_ref()
        fields = {}
        for idx, (f, fs) in enumerate(decl.fields):
            val = self.from_term(dt.accessor(0, idx)(term), fs, st)
            if isinstance(val, VSeq) and not val.is_str:
                val = self.box_list(val, st)
            fields[f] = val
        st.heap[r] = ObjState(so.name, fields)
        st.writebacks.append((origin[0], origin[1], r))
        return VRef(r)

    def flush_writebacks(self, st):
        for dref, key, oref in st.writebacks:
            d = st.heap[dref]
            obj = st.heap[oref]
            so = d.sort.args[1]
            osort = OPT(so)
            st.heap[dref] = V(d.sort, z3.Store(d.t, key, self.U.z3sort(osort).some(self.to_term(obj, so, st))))

    def dict_setitem(self, base, idx, val, st):
        d = self.dict_cur(base, st)
        if d is None:
            return None
        if not isinstance(base, VRef):
            raise Unsupported("item assignment on an immutable dict value")
        osort = OPT(d.sort.args[1])
        newt = z3.Store(d.t, self.dict_key(d, idx, st), self.U.z3sort(osort).some(self.to_term(val, d.sort.args[1], st)))
        st.heap[base.ref] = V(d.sort, newt)
        return [(st, None)]

    def dict_delitem(self, target, st):
        outs = list(self.ev_list([target.value, target.slice], st))
        if len(outs) != 1 or isinstance(outs[0][0], Exc):
            raise Unsupported("del d[k] forks")
        (base, idx), s = outs[0]
        d = self.dict_cur(base, s)
        if d is None or not isinstance(base, VRef):
            raise Unsupported("del on a non-dict")
        osort = OPT(d.sort.args[1])
        dt = self.U.z3sort(osort)
        self.oblige(s, dt.is_some(self.dict_lookup(d, idx, s)), "safe", "del: key present", name=f"{self.cur_fn}::safe.KeyError")
        s.heap[base.ref] = V(d.sort, z3.Store(d.t, self.dict_key(d, idx, s), dt.none))

    def dict_len(self, v, st):
        return None

    def dict_method(self, recv, r0, name, args, kwargs, st):
        d = self.dict_cur(r0, st)
        if d is None:
            return None
        return self._dict_method(recv, d, name, args, kwargs, st)

    def _dict_method(self, recv, d, name, args, kwargs, st):
        osort = OPT(d.sort.args[1])
        dt = self.U.z3sort(osort)
        if name == "get":
            o = self.dict_lookup(d, args[0], st)
            if len(args) == 1 or (isinstance(self.deref(args[1], st), V) and self.deref(args[1], st).sort.kind == "none"):
                yield V(osort, o), st
            else:
                dflt = self.to_term(args[1], d.sort.args[1], st)
                yield self.from_term(z3.If(dt.is_some(o), dt.val(o), dflt), d.sort.args[1], st), st
        elif name == "copy":
            r = new_ref()
            st.heap[r] = V(d.sort, d.t)
            yield VRef(r), st
        elif name == "__getitem__":
            yield from self._dict_getitem(d, args[0], st)
        elif name == "__contains__":
            yield V(BOOL, dt.is_some(self.dict_lookup(d, args[0], st))), st
        else:
            raise Unsupported(f"dict.{name}")

    # {**a, **b} and {} --------------------------------------------------------------------------
    def ev_Dict(self, node, st):
        if all(k is None for k in node.keys) and node.values:
            for vals, s in self.ev_list(node.values, st):
                if isinstance(vals, Exc):
                    yield vals, s
                    continue
                ds = [self.dict_cur(v, s) for v in vals]
                if any(d is None for d in ds):
                    raise Unsupported("** unpacking of a non-dict")
                so = ds[0].sort
                osort = OPT(so.args[1])
                dt = self.U.z3sort(osort)
                k = z3.Const(fresh_name("dk"), self.U.z3sort(so.args[0]))
                cur = ds[0].t
                for d in ds[1:]:
                    merged = z3.Const(fresh_name("merged"), self.dict_z3sort(so))
                    s.assume(z3.ForAll([k], merged[k] == z3.If(dt.is_some(d.t[k]), d.t[k], cur[k]), patterns=[merged[k]]))
                    cur = merged
                r = new_ref()
                s.heap[r] = V(so, cur)
                yield VRef(r), s
            return
        if not node.keys:
            raise Unsupported("empty dict literal without a declared sort")
        raise Unsupported("dict literal")
