"""Executor core: sort parsing, fresh symbolic values, coercions, truthiness, obligations."""
from __future__ import annotations

import ast
import re
from typing import Any, Dict, List, Optional

import z3

from . import seqs, source
from .contracts import Contract, Registry, parse_expr
from .sorts import *  # noqa
from .sorts import _sname
from .state import Exc, Oblig, State, new_ref


class Core:
    def __init__(self, registry: Registry, contract: Contract):
        self.reg = registry
        self.c = contract
        self.bv = contract.bv
        self.U = SortUniverse(bv=contract.bv)
        for name, fields, opts in registry.records:
            self.U.declare_record(RecordDecl(name, [(f, self.parse_sort(s)) for f, s in fields], **opts))
        self.obligs: List[Oblig] = []
        self.path_counter = 0
        self.mod = source.load(contract.module) if contract.kind == "function" else None
        self.spec_mode = 0
        self.cur_fn = contract.qual
        self.cur_line = 0
        self.trusted_used: set = set()
        self.callees_used: set = set()
        self.inline_depth = 0
        self.notes: List[str] = []
        self.lemma_instances: set = set()
        self.global_facts: List[Any] = []
        self._global_heap: Dict[int, Any] = {}
        self._const_cache: Dict[Any, Any] = {}
        self._ostr_lits: Dict[str, Any] = {}
        self._comp_memo: Dict[Any, Any] = {}

    # ------------------------------------------------------------------ sorts
    def parse_sort(self, text) -> Sort:
        if isinstance(text, Sort):
            return text
        t = text.strip()
        low = t.lower()
        if low == "int":
            return INT
        if low == "bool":
            return BOOL
        if low == "float":
            return REAL
        if low in ("none", "nonetype"):
            return NONE
        if low == "str":
            return STR
        if low == "ostr":
            return OSTR
        m = re.match(r"^(\w+)\[(.*)\]$", t)
        if m:
            head, inner = m.group(1).lower(), m.group(2)
            if head == "optional":
                return OPT(self.parse_sort(inner))
            if head == "list":
                return LIST(self.parse_sort(inner))
            if head == "tuple":
                return TUPLE(*[self.parse_sort(x) for x in _split_top(inner)])
            if head == "dict":
                kk, vv = _split_top(inner)
                return Sort("dict", (self.parse_sort(kk), self.parse_sort(vv)))
        if t.startswith("opaque:"):
            return OPAQUE(t[7:])
        if t in self.U.records:
            return self.U.rec(t)
        # forward reference to a record declared later
        for name, _f, _o in self.reg.records:
            if name == t:
                return Sort("rec", (), t)
        raise Unsupported(f"unknown sort text {text!r}")

    # ------------------------------------------------------------------ ints
    def I(self, n: int):
        return z3.BitVecVal(n, BVW) if self.bv else z3.IntVal(n)

    def int_of_bool(self, b):
        return z3.If(b, self.I(1), self.I(0))

    def to_mathint(self, t):
        """z3 Int view of an int term (bv mode: signed value)"""
        if z3.is_bv(t):
            return z3.BV2Int(t, is_signed=True)
        return t

    def from_mathint(self, t):
        if self.bv and not z3.is_bv(t):
            return z3.Int2BV(t, BVW)
        return t

    # ------------------------------------------------------------------ fresh symbolic values
    def fresh(self, sort: Sort, base: str, st: State, as_ref=True):
        """Fresh symbolic value of `sort`; well-formedness facts (lengths >= 0) go to st.pc."""
        k = sort.kind
        if k == "str":
            arr = z3.Const(fresh_name(base + ".cp"), seqs.IntArr)
            n = z3.Int(fresh_name(base + ".len"))
            st.assume(n >= 0)
            return seqs.view(arr, z3.IntVal(0), n, INT, is_str=True)
        if k == "list":
            ez = self.U.z3sort(sort.args[0])
            arr = z3.Const(fresh_name(base + ".arr"), z3.ArraySort(z3.IntSort(), ez))
            n = z3.Int(fresh_name(base + ".len"))
            st.assume(n >= 0)
            vs = seqs.view(arr, z3.IntVal(0), n, sort.args[0])
            if as_ref:
                r = new_ref()
                st.heap[r] = vs
                return VRef(r)
            return vs
        if k == "none":
            return V(NONE, None)
        if k == "dict" and as_ref:
            r = new_ref()
            st.heap[r] = V(sort, z3.Const(fresh_name(base), self.U.z3sort(sort)))
            return VRef(r)
        if k == "tuple":
            return VTuple([self.fresh(a, f"{base}.{i}", st, as_ref=False) for i, a in enumerate(sort.args)])
        if k == "rec" and self.U.records[sort.name].mutable and as_ref:
            decl = self.U.records[sort.name]
            r = new_ref()
            st.heap[r] = ObjState(sort.name, {f: self.fresh(fs, f"{base}.{f}", st, as_ref=True) for f, fs in decl.fields})
            return VRef(r)
        t = z3.Const(fresh_name(base), self.U.z3sort(sort))
        v = V(sort, t)
        self.wf_facts(v, st)
        return v

    def wf_facts(self, v, st: State):
        """lengths of embedded sequences are non-negative (one level deep is what the code reads)"""
        if not isinstance(v, V):
            return
        s = v.sort
        if s.kind in ("str", "list"):
            st.assume(self.U.z3sort(s).len(v.t) >= 0)
        elif s.kind == "rec":
            dt = self.U.z3sort(s)
            for idx, (f, fs) in enumerate(self.U.records[s.name].fields):
                if fs.kind in ("str", "list"):
                    st.assume(self.U.z3sort(fs).len(dt.accessor(0, idx)(v.t)) >= 0)
                elif fs.kind == "opt" and fs.args[0].kind in ("str", "list"):
                    o = self.U.z3sort(fs)
                    st.assume(self.U.z3sort(fs.args[0]).len(o.val(dt.accessor(0, idx)(v.t))) >= 0)

    # ------------------------------------------------------------------ conversions value <-> term
    def deref(self, v, st: State):
        if isinstance(v, VRef):
            if v.ref < 0:
                return self._global_heap[v.ref]
            return st.heap[v.ref]
        return v

    def to_term(self, v, sort: Sort, st: State):
        """z3 term of z3sort(sort) for value v (coercing None/T into Optional[T], ropes into SeqV)."""
        v = self.deref(v, st)
        k = sort.kind
        if k == "opt":
            dt = self.U.z3sort(sort)
            if isinstance(v, V) and v.sort.kind == "none":
                return dt.none
            if isinstance(v, V) and v.sort == sort:
                return v.t
            return dt.some(self.to_term(v, sort.args[0], st))
        if k in ("str", "list"):
            if isinstance(v, V) and v.sort.kind in ("str", "list"):
                return v.t
            if isinstance(v, VTuple):
                v = self.tuple_to_seq(v, sort.args[0], st)
            if not isinstance(v, VSeq):
                raise Unsupported(f"cannot store {type(v).__name__} as {sort}")
            ez = z3.IntSort() if k == "str" else self.U.z3sort(sort.args[0])
            facts: list = []
            arr, n = seqs.materialize(v, facts, ez)
            for f in facts:
                st.assume(f)
            if k == "list" and sort.args[0].kind == "rec" and sort.args[0].name == "Segment" and len(v.pieces) > 1 and hasattr(self, "segcells"):
                # sum-congruence instances for the cell width of a line of segments (lemma; induction on the length)
                uf, measure = self.segcells()
                off = z3.IntVal(0)
                for p_ in v.pieces:
                    if p_.kind == "view":
                        pc_ = uf(p_.a, p_.hi) - uf(p_.a, p_.lo)
                    elif p_.kind == "rep":
                        pc_ = p_.hi * measure(p_.a)
                    else:
                        pc_ = z3.IntVal(0)
                        for it_ in p_.items:
                            pc_ = pc_ + measure(it_)
                    nxt = z3.simplify(off + p_.length())
                    st.assume(uf(arr, nxt) - uf(arr, off) == pc_)
                    off = nxt
            if k == "list" and sort.args[0].kind == "str" and len(v.pieces) > 1 and hasattr(self, "join_measures"):
                # the same sum-congruence instances for the join measures of a list of strings (joinlen / joincells of the
                # stored list are the sums over its pieces)
                ln_, ce_ = self.join_measures(seqs.lit_str(""), v, st)
                ln2_, ce2_ = self.join_measures(seqs.lit_str(""), seqs.view(arr, z3.IntVal(0), n, sort.args[0]), st)
                st.assume(ln2_ == ln_)
                st.assume(ce2_ == ce_)
            return self.U.z3sort(sort).mk(arr, n)
        if k == "tuple":
            if isinstance(v, VTuple):
                return self.U.z3sort(sort).mk(*[self.to_term(x, a, st) for x, a in zip(v.items, sort.args)])
            if isinstance(v, V) and v.sort == sort:
                return v.t
            raise Unsupported(f"cannot store {v} as {sort}")
        if k == "rec":
            if isinstance(v, ObjState):
                decl = self.U.records[sort.name]
                return self.U.z3sort(sort).mk(*[self.to_term(v.fields[f], fs, st) for f, fs in decl.fields])
            if isinstance(v, V) and v.sort == sort:
                return v.t
            raise Unsupported(f"cannot store {v} as {sort}")
        if k == "none":
            return None
        if k == "dict":
            if isinstance(v, V) and v.sort.kind == "dict":
                return v.t
            if isinstance(v, VFunc) and v.kind == "bound" and v.name == "get":
                # a stored bound `dict.get` is represented by its receiver (see ThemeStack.get)
                return self.to_term(v.obj, sort, st)
            raise Unsupported(f"cannot store {getattr(v, 'sort', type(v).__name__)} as {sort}")
        if k == "ostr":
            if isinstance(v, V) and v.sort.kind == "ostr":
                return v.t
            if isinstance(v, V) and v.sort.kind == "str":
                v = self.from_term(v.t, STR, st)
            if isinstance(v, VSeq) and v.is_str:
                return self.ostr_of(v, st)
            if isinstance(v, V) and v.sort.kind == "opt" and v.sort.args[0].kind == "ostr":
                return self.U.z3sort(v.sort).val(v.t)
            raise Unsupported(f"cannot store {getattr(v, 'sort', type(v).__name__)} as ostr")
        if isinstance(v, V):
            if v.sort == sort:
                return v.t
            if k == "real" and v.sort.kind in ("int", "bool"):
                return self.real_of(v)
            if k == "int" and v.sort.kind == "bool":
                return self.int_of_bool(v.t)
            if k == "bool" and v.sort.kind == "int":
                return v.t != self.I(0)
            if v.sort.kind == "opt" and v.sort.args[0] == sort:
                # caller is responsible for the not-None obligation
                return self.U.z3sort(v.sort).val(v.t)
            if v.sort.kind == "opt" and k in ("int", "real", "bool"):
                inner = self.from_term(self.U.z3sort(v.sort).val(v.t), v.sort.args[0], st)
                return self.to_term(inner, sort, st)
        raise Unsupported(f"cannot coerce {getattr(v, 'sort', type(v).__name__)} to {sort}")

    def from_term(self, t, sort: Sort, st: State):
        """Value for a z3 term of z3sort(sort) (sequences become single-view ropes)."""
        k = sort.kind
        if k in ("str", "list"):
            dt = self.U.z3sort(sort)
            n = z3.simplify(dt.len(t))
            st.assume(n >= 0)
            return seqs.view(z3.simplify(dt.arr(t)), z3.IntVal(0), n, INT if k == "str" else sort.args[0], is_str=(k == "str"))
        if k == "tuple":
            dt = self.U.z3sort(sort)
            return VTuple([self.from_term(z3.simplify(dt.accessor(0, i)(t)), a, st) for i, a in enumerate(sort.args)])
        if k == "none":
            return V(NONE, None)
        return V(sort, z3.simplify(t) if z3.is_app(t) else t)

    def ostr_of(self, vs: VSeq, st: State):
        """identity-only view of a string: literals are distinct named constants, anything else an
        uninterpreted function of the string term (congruence only)"""
        so = self.U.z3sort(OSTR)
        lv = seqs.lit_value(vs)
        if lv is not None:
            name = "ostr_lit_" + (lv.encode("utf-8").hex() or "empty")
            c = z3.Const(name, so)
            if name not in self._ostr_lits:
                self._ostr_lits[name] = (c, lv)
                self.global_facts.append(self.ostr_nonempty()(c) == z3.BoolVal(len(lv) > 0))
                if len(self._ostr_lits) > 1:
                    self.global_facts.append(z3.Distinct(*[x for x, _ in self._ostr_lits.values()]))
            return c
        f = z3.Function("ostr_of", self.U.z3sort(STR), so)
        t = self.to_term(vs, STR, st)
        r = f(t)
        st.assume(self.ostr_nonempty()(r) == (vs.length() > 0))
        return r

    def ostr_nonempty(self):
        return z3.Function("ostr_nonempty", self.U.z3sort(OSTR), z3.BoolSort())

    def sort_of(self, v, st: State) -> Sort:
        v = self.deref(v, st)
        if isinstance(v, V):
            return v.sort
        if isinstance(v, VSeq):
            return v.sort
        if isinstance(v, VTuple):
            return TUPLE(*[self.sort_of(x, st) for x in v.items])
        if isinstance(v, ObjState):
            return Sort("rec", (), v.cls)
        raise Unsupported(f"no sort for {type(v).__name__}")

    def tuple_to_seq(self, v: VTuple, elem: Sort, st: State) -> VSeq:
        return VSeq(elem, [Piece("lit", items=[self.to_term(x, elem, st) for x in v.items])] if v.items else [])

    def real_of(self, v: V):
        if v.sort.kind == "real":
            return v.t
        if v.sort.kind == "bool":
            return z3.If(v.t, z3.RealVal(1), z3.RealVal(0))
        return z3.ToReal(self.to_mathint(v.t))

    # ------------------------------------------------------------------ record fields
    def rec_field(self, v: V, name: str, st: State):
        decl = self.U.records[v.sort.name]
        dt = self.U.z3sort(v.sort)
        for idx, (f, fs) in enumerate(decl.fields):
            if f == name:
                return self.from_term(dt.accessor(0, idx)(v.t), fs, st)
        raise KeyError(name)

    def make_rec(self, name: str, vals: Dict[str, Any], st: State) -> V:
        sort = self.U.rec(name)
        decl = self.U.records[name]
        dt = self.U.z3sort(sort)
        args = []
        for f, fs in decl.fields:
            if f not in vals:
                raise Unsupported(f"record {name}: missing field {f}")
            args.append(self.to_term(vals[f], fs, st))
        return V(sort, dt.mk(*args))

    # ------------------------------------------------------------------ truthiness
    def truthy(self, v, st: State):
        v = self.deref(v, st)
        if isinstance(v, V):
            k = v.sort.kind
            if k == "bool":
                return v.t
            if k == "int":
                return v.t != self.I(0)
            if k == "real":
                return v.t != 0
            if k == "none":
                return z3.BoolVal(False)
            if k == "opt":
                dt = self.U.z3sort(v.sort)
                inner = self.from_term(dt.val(v.t), v.sort.args[0], st)
                return z3.And(dt.is_some(v.t), self.truthy(inner, st))
            if k in ("str", "list"):
                return self.U.z3sort(v.sort).len(v.t) > 0
            if k == "rec":
                tr = self.reg.specfns.get(f"truthy_{v.sort.name}")
                if tr is not None:
                    r = self.eval_spec_text(tr.body, {tr.params[0]: v}, st)
                    return self.truthy(r, st)
                return z3.BoolVal(True)
            if k == "opaque":
                return z3.BoolVal(True)
            if k == "ostr":
                return self.ostr_nonempty()(v.t)
            if k == "dict":
                # a dict is a total map key -> Optional[value]: non-empty iff some key is present
                kv = z3.FreshConst(self.U.z3sort(v.sort.args[0]), "dk")
                return z3.Exists([kv], self.U.z3sort(OPT(v.sort.args[1])).is_some(v.t[kv]))
        if isinstance(v, VSeq):
            return v.length() > 0
        if isinstance(v, VTuple):
            return z3.BoolVal(len(v.items) > 0)
        if isinstance(v, ObjState):
            tr = self.reg.specfns.get(f"truthy_{v.cls}")
            if tr is not None:
                r = self.eval_spec_text(tr.body, {tr.params[0]: v}, st)
                return self.truthy(r, st)
            return z3.BoolVal(True)
        if isinstance(v, VFunc):
            return z3.BoolVal(True)
        raise Unsupported(f"truthiness of {type(v).__name__}")

    def is_none(self, v, st: State):
        v = self.deref(v, st)
        if isinstance(v, V):
            if v.sort.kind == "none":
                return z3.BoolVal(True)
            if v.sort.kind == "opt":
                return self.U.z3sort(v.sort).is_none(v.t)
        return z3.BoolVal(False)

    def unwrap_opt(self, v, st: State, why: str):
        """Use an Optional[T] value as T: obligation that it is not None (else TypeError/AttributeError)."""
        v0 = self.deref(v, st)
        if isinstance(v0, V) and v0.sort.kind == "opt":
            dt = self.U.z3sort(v0.sort)
            if not self.spec_mode:
                self.oblige(st, dt.is_some(v0.t), "safe", f"not None: {why}", name=f"{self.cur_fn}::safe.NoneType")
            return self.from_term(dt.val(v0.t), v0.sort.args[0], st)
        return v

    def entails(self, st: State, cond) -> bool:
        """quick solver check that the path condition implies `cond` (only a definite `unsat` of the
        negation counts)"""
        from .solve import quick_check, _has_quant
        # quantifier-free part only (decidable, hence the same answer on every run): see StmtMixin.feasible
        facts = [f for f in list(self.global_facts) + list(st.pc) if not _has_quant(f)]
        return str(quick_check(facts + [z3.Not(cond)], 5000000)) == "unsat"

    # ------------------------------------------------------------------ obligations
    def oblige(self, st: State, goal, kind: str, text: str, name: Optional[str] = None, expect_sat=False):
        goal = z3.simplify(goal) if not isinstance(goal, bool) else z3.BoolVal(goal)
        if z3.is_true(goal) and not expect_sat:
            # still counted (discharged syntactically) so that obligation classes do not vanish
            self.obligs.append(Oblig(name or f"{self.cur_fn}::{kind}", kind, self.cur_fn, self.cur_line, [], goal, text, self.path_counter, list(self.c.serves)))
            return
        self.obligs.append(
            Oblig(name or f"{self.cur_fn}::{kind}", kind, self.cur_fn, self.cur_line, list(self.global_facts) + list(st.pc), goal, text, self.path_counter, list(self.c.serves), expect_sat)
        )
        if not expect_sat:
            st.assume(goal)

    # ------------------------------------------------------------------ spec text evaluation
    def eval_spec_text(self, text: str, bindings: Dict[str, Any], st: State):
        """Evaluate a contract expression in spec mode with extra bindings (single path required)."""
        node = parse_expr(text)
        sub = st.copy()
        sub.env = dict(st.env)
        sub.env.update(bindings)
        self.spec_mode += 1
        try:
            outs = list(self.ev(node, sub))
        finally:
            self.spec_mode -= 1
        if len(outs) != 1 or isinstance(outs[0][0], Exc):
            raise Unsupported(f"spec expression {text!r} does not evaluate on a single path: {[o[0] for o in outs][:3]}")
        val, s2 = outs[0]
        # facts introduced while evaluating (materialisations, wf) are kept
        for f in s2.pc[len(st.pc):]:
            st.assume(f)
        st.heap.update({k: v for k, v in s2.heap.items() if k not in st.heap})
        return val

    def spec_bool(self, text: str, bindings: Dict[str, Any], st: State):
        return self.truthy(self.eval_spec_text(text, bindings, st), st)


def _split_top(s: str) -> List[str]:
    out, depth, cur = [], 0, ""
    for ch in s:
        if ch == "[":
            depth += 1
        elif ch == "]":
            depth -= 1
        if ch == "," and depth == 0:
            out.append(cur)
            cur = ""
        else:
            cur += ch
    if cur.strip():
        out.append(cur)
    return out
