"""Per-contract driver: generation and solving of one contract's obligations happen in a child process forked from the
*clean* main process (which never touches z3), and every single query is solved in a grandchild forked right after the
generation.  What z3 does on a query was seen to depend on the history of the process (symbols are interned in a
process-global table: the same query went unsat in 0.0 s alone and `unknown` after 111 other queries, fresh context or
not).  With this layout the state a query is solved in is a function of (main's start state, the contract's source,
the contracts) only - the same in a ledger run, in a check run, alone or next to other checks."""
from __future__ import annotations

import multiprocessing as mp
import multiprocessing.pool
import os
import traceback
from types import SimpleNamespace
from typing import Any, Dict, List

_REG = None
INNER = int(os.environ.get("VF_INNER_PROCS", "4"))
OUTER = int(os.environ.get("VF_OUTER_PROCS", "5"))


def _light(o) -> Dict[str, Any]:
    return {"name": o.name, "kind": o.kind, "fn": o.fn, "line": o.line, "text": o.text, "path": o.path,
            "expect_sat": o.expect_sat, "serves": list(o.serves)}


def _job(args):
    kind, key, hints = args
    from .sorts import Unsupported
    from .solve import discharge
    from .verify import Exec, generate_lemma

    R = _REG
    out: Dict[str, Any] = {"kind": kind, "key": key}
    try:
        if kind == "contract":
            c = R.contracts[key]
            ex = Exec(R, c)
            obs = ex.generate()
            fn = ex.mod.func(c.func)
            out.update(sha256=ex.mod.sha(fn), lines=[fn.lineno, fn.end_lineno], callees=sorted(ex.callees_used),
                       notes=sorted(set(ex.notes))[:6], trusted_used=sorted(ex.trusted_used))
        else:
            lem = R.lemmas[key]
            obs, _ex = generate_lemma(R, lem)
        for o in obs:
            o.hint = hints.get(o.name)
        res = discharge(obs, procs=INNER, one_query_per_process=True)
        out["obligs"] = [_light(o) for o in obs]
        out["results"] = res
    except Unsupported as e:
        out["unsupported"] = str(e)
    except KeyError as e:
        out["missing"] = str(e)
    except Exception as e:  # engine crash on this function: undecided, never a violation
        out["engine_error"] = repr(e)
        if os.environ.get("VF_DEBUG"):
            traceback.print_exc()
    return out


def run_jobs(R, jobs: List[tuple], hints: Dict[str, str]) -> List[Dict[str, Any]]:
    """jobs: [("contract", (module, func)) | ("lemma", name)] -> one dict per job, in the order given"""
    global _REG
    _REG = R
    args = [(k, key, hints) for k, key in jobs]
    if not args:
        return []
    # non-daemonic outer workers (they create pools themselves)
    ctx = mp.get_context("fork")
    results: Dict[int, Dict[str, Any]] = {}
    with _NoDaemonPool(min(OUTER, len(args)), ctx) as pool:
        for i, r in pool.imap_unordered(_indexed, list(enumerate(args)), chunksize=1):
            results[i] = r
    return [results[i] for i in range(len(args))]


def _indexed(ia):
    i, a = ia
    return i, _job(a)


class _NoDaemonProcess(mp.get_context("fork").Process):
    @property
    def daemon(self):
        return False

    @daemon.setter
    def daemon(self, value):
        pass


class _NoDaemonContext(type(mp.get_context("fork"))):
    Process = _NoDaemonProcess


class _NoDaemonPool(mp.pool.Pool):
    def __init__(self, n, _ctx):
        super().__init__(n, context=_NoDaemonContext(), maxtasksperchild=1)


def as_oblig(d: Dict[str, Any]):
    return SimpleNamespace(**d)
