"""vcheck: decide one property.

  vcheck <ID> [--tier quick|thorough]     exit 0 held / 1 violation (VIOLATION line) / 2 undecided / 3 crash
  vcheck replay <file>                    re-run a recorded failing input on the real code
  vcheck ledger [ID ...]                  (developer) record the obligation classes proved on this tree
  vcheck list                             contracts, lemmas, data obligations per property
"""
from __future__ import annotations

import importlib
import json
import re
import shutil
import os
import sys
import time
import traceback
from collections import defaultdict
from typing import Any, Dict, List

HERE = os.path.dirname(os.path.dirname(os.path.abspath(__file__)))
if HERE not in sys.path:
    sys.path.insert(0, HERE)
REPO = os.environ.get("VF_REPO", "/repo")
if REPO not in sys.path:
    sys.path.insert(0, REPO)

from contracts import load_all  # noqa: E402
from vf.pyvc import source  # noqa: E402
from vf.pyvc.solve import discharge  # noqa: E402
from vf.pyvc.sorts import Unsupported  # noqa: E402
from vf.pyvc.verify import Exec, generate_lemma  # noqa: E402
from vf.rtc.native import check_contract, resolve_function  # noqa: E402

LEVELS = json.load(open(os.path.join(HERE, "levels.json")))


def load_known():
    p = os.path.join(HERE, "known_findings.json")
    if not os.path.exists(p):
        return []
    return json.load(open(p)).get("findings", [])


def run_property(pid: str, tier: str, seed: int) -> int:
    t0 = time.time()
    R = load_all()
    cs, ls, ds = R.for_property(pid)
    ledger_path = os.path.join(HERE, "ledger", f"{pid}.json")
    ledger = json.load(open(ledger_path)) if os.path.exists(ledger_path) else {"classes": [], "functions": {}}
    known = [k for k in load_known() if k.get("property") == pid and k.get("status", "open") == "open"]
    violations: List[Dict[str, Any]] = []
    undecided: List[str] = []
    known_hits: List[str] = []
    ev: Dict[str, Any] = {}

    # ------------------------------------------------------------- D: data obligations
    data_res = []
    for d in ds:
        try:
            ok, detail, count = d.check()
        except Exception as e:  # pragma: no cover
            ok, detail, count = False, f"crashed: {e!r}", 0
        data_res.append({"name": d.name, "ok": bool(ok), "detail": detail, "facts_checked": count})
        if not ok:
            violations.append({"kind": "data", "name": d.name, "detail": detail, "input": None})

    os.environ["VF_VC_DUMP"] = os.path.join(os.environ.get("VF_OUT_DIR") or HERE, "replays", pid, "open_vcs")
    shutil.rmtree(os.environ["VF_VC_DUMP"], ignore_errors=True)
    # ------------------------------------------------------------- P: proof obligations
    # generated and solved per contract in child processes of this (z3-free) process: see vf/pyvc/driver.py
    from vf.pyvc.driver import run_jobs, as_oblig
    all_obs = []
    res = []
    functions = []
    assumptions = set()
    jobs = []
    for c in cs:
        if c.inline or c.module.startswith("<"):
            continue
        if c.trusted:
            assumptions.add(f"trusted contract {c.qual}: {c.trusted}")
            continue
        if not c.verify:
            continue
        jobs.append(("contract", c.key))
    for l in ls:
        jobs.append(("lemma", l.name))
    hints = ledger.get("hints", {})
    for (kind, key), out in zip(jobs, run_jobs(R, jobs, hints)):
        qual = R.contracts[key].qual if kind == "contract" else f"lemma.{key}"
        if "unsupported" in out:
            functions.append({"function": qual, "unsupported": out["unsupported"]})
            undecided.append(f"{qual}: outside the modelled subset ({out['unsupported']})")
            continue
        if "missing" in out:
            functions.append({"function": qual, "missing": out["missing"]})
            undecided.append(f"{qual}: contract target missing ({out['missing']})")
            continue
        if "engine_error" in out:
            functions.append({"function": qual, "engine_error": out["engine_error"]})
            undecided.append(f"{qual}: engine error {out['engine_error']}")
            continue
        if kind == "contract":
            functions.append({"function": qual, "sha256": out["sha256"], "obligations": len(out["obligs"]), "lines": out["lines"],
                              "callees": out["callees"], "notes": out["notes"]})
            for t in out["trusted_used"]:
                assumptions.add("trusted callee contract " + t)
        else:
            functions.append({"function": qual, "obligations": len(out["obligs"])})
        all_obs.extend(as_oblig(d) for d in out["obligs"])
        res.extend(out["results"])
    classes: Dict[str, Dict[str, Any]] = {}
    by_backend: Dict[str, int] = defaultdict(int)
    solver_s = 0.0
    for o, r in zip(all_obs, res):
        cl = classes.setdefault(o.name, {"kind": o.kind, "instances": 0, "verdicts": defaultdict(int), "fn": o.fn, "text": o.text, "bad": [], "cover": o.expect_sat})
        cl["instances"] += 1
        cl["verdicts"][r["verdict"]] += 1
        solver_s += r["time"]
        by_backend[re.sub(r" cfg\d+( slow)?| \(second pass\)| rel\d| qf$", "", r["solver"] or "none")] += 1
        if not o.expect_sat and r["verdict"] != "unsat":
            cl["bad"].append({"line": o.line, "path": o.path, "verdict": r["verdict"], "solver_s": round(r["time"], 1), "vc_file": r.get("vc_file"), "reason": r["reason"][:300], "model": r.get("model"), "text": o.text})
    proved, failed, dead_cover = [], [], []
    for name, cl in classes.items():
        if cl["cover"]:
            if all(v == "unsat" for v in cl["verdicts"]):
                dead_cover.append(name)
            continue
        (failed if cl["bad"] else proved).append(name)
    n_obl = sum(1 for c_ in classes.values() if not c_["cover"])

    # ------------------------------------------------------------- N: native bounded cross-check of the same contracts
    native_res = []
    budget = 1500 if tier == "quick" else 20000
    for c in cs:
        if c.inline or c.trusted or c.module.startswith("<") or not c.native:
            continue
        try:
            r = check_contract(c, R, seed, min(budget, c.native_budget if tier == "quick" else budget), time_budget=8.0 if tier == "quick" else 60.0)
        except Exception as e:  # pragma: no cover
            r = {"contract": c.qual, "evaluations": 0, "distinct": 0, "failures": [], "samples": [], "error": f"crashed: {e!r}"}
        native_res.append(r)
        for f in r["failures"][:1]:
            violations.append({"kind": "native", "name": f"{c.qual}::native", "detail": f["clause"], "input": f, "contract": c.qual})

    # ------------------------------------------------------------- B: property-level bounded checks
    bounded = None
    try:
        mod = importlib.import_module(f"vf.rtc.props.{pid.lower()}")
    except ModuleNotFoundError:
        mod = None
    if mod is not None:
        try:
            bounded = mod.run(tier=tier, seed=seed)
            for f in bounded.get("failures", []):
                violations.append({"kind": "bounded", "name": f.get("check", "bounded"), "detail": f.get("what", ""), "input": f})
        except Exception as e:
            undecided.append(f"bounded check crashed: {e!r}")
            if os.environ.get("VF_DEBUG"):
                traceback.print_exc()

    # ------------------------------------------------------------- failed proof obligations
    for name in failed:
        cl = classes[name]
        in_ledger = name in ledger["classes"]
        qual = cl["fn"]
        nat = next((r for r in native_res if r["contract"] == qual and r["failures"]), None)
        if not in_ledger and not any(b["verdict"] == "sat" for b in cl["bad"]):
            undecided.append(f"{name}: not discharged and not in the ledger (new obligation)")
            continue
        violations.append({"kind": "proof", "name": name, "detail": cl["text"], "bad": cl["bad"][:3],
                           "input": nat["failures"][0] if nat else None, "contract": qual})
    for name in dead_cover:
        if name in ledger.get("covers", []):
            undecided.append(f"{name}: vacuity guard — no instance is satisfiable any more")
    missing = [n for n in ledger["classes"] if n not in classes]
    for n in missing:
        fnq = n.split("::")[0]
        if not any(u.startswith(fnq) for u in undecided):
            undecided.append(f"{n}: obligation class of the ledger was not generated on this tree")

    # ------------------------------------------------------------- known findings, replay files, verdict
    out_lines = []
    real_violations = []
    seen_v = set()
    for v in violations:
        key = (v["name"], json.dumps(v.get("input"), sort_keys=True, default=str)[:200])
        if key in seen_v:
            continue
        seen_v.add(key)
        hit = match_known(v, known)
        if hit is not None:
            known_hits.append(f"KNOWN-FINDING: property={pid} {hit['what']}")
            continue
        real_violations.append(v)
    OUT = os.environ.get("VF_OUT_DIR") or HERE  # developer sweeps over seeded changes write elsewhere
    os.makedirs(os.path.join(OUT, "replays", pid), exist_ok=True)
    for i, v in enumerate(real_violations):
        path = os.path.join(OUT, "replays", pid, f"violation_{i}.json")
        json.dump({"property": pid, "obligation": v["name"], "kind": v["kind"], "contract": v.get("contract"), "clause": v.get("detail"),
                   "failing_input": v.get("input"), "solver_output": v.get("bad"), "tree": REPO}, open(path, "w"), indent=1, default=str)
        tail = "" if v.get("input") else " no-failing-input-found"
        out_lines.append(f"VIOLATION property={pid} replay={path}{tail}")

    level = LEVELS[pid]["category"]
    wall = time.time() - t0
    nat_eval = sum(r["evaluations"] for r in native_res)
    nat_distinct = sum(r["distinct"] for r in native_res)
    b_eval = (bounded or {}).get("evaluations", 0)
    b_distinct = (bounded or {}).get("distinct_nontrivial", 0)
    samples = [{"obligation": n, "kind": classes[n]["kind"], "clause": classes[n]["text"][:160]} for n in proved[:4]]
    samples += [s for r in native_res for s in r["samples"][:1]][:3]
    samples += (bounded or {}).get("samples", [])[:3]
    coverage = {
        "obligations": n_obl + len(data_res),
        "discharged": len(proved) + sum(1 for d in data_res if d["ok"]),
        "checker_cmd": f"bin/vcheck {pid} --tier {tier}",
        "trusted_base": sorted(assumptions) + [
            "pyvc's encoding of the modelled Python subset (cross-checked natively on every run, not proved)",
            "z3 5.1.0 / cvc5 1.0.3 / z3 4.8.12 soundness",
            "machine floats treated as mathematical reals; ints mathematical",
            "lemma schemas (prefix-sum unfolding, non-negative sums, sum congruence): induction principle trusted, steps machine-checked",
        ],
        "evaluations": nat_eval + b_eval + len(all_obs),
        "distinct_nontrivial": nat_distinct + b_distinct,
        "rule": "proof: one VC per path and clause, grouped in obligation classes; bounded: native evaluation of the same contract clauses on the real function over enumerated small inputs + seeded random (distinct = distinct abstract input shapes); property-level bounded checks as described in `bounded`",
        "samples": samples or [{"note": "no obligation generated"}],
        "explanation": LEVELS[pid]["text"],
        "functions_under_contract": functions,
        "proof": {"vc_instances": len(all_obs), "classes": n_obl, "classes_discharged": len(proved), "classes_failed": failed,
                  "by_backend": dict(by_backend), "solver_seconds": round(solver_s, 2), "ledger_classes": len(ledger["classes"]),
                  "vacuity_covers_dead": dead_cover},
        "data_obligations": data_res,
        "native_bounded": [{k: r[k] for k in ("contract", "evaluations", "distinct", "error") if k in r} | {"pre_rejected": r.get("pre_rejected", 0), "failures": len(r["failures"])} for r in native_res],
        "bounded": {k: v for k, v in (bounded or {}).items() if k not in ("failures", "samples")},
        "undecided": undecided,
        "known_findings_hit": known_hits,
        "exhaustive": False,
    }
    evidence = {"property_id": pid, "tier": tier, "seed": seed, "level": level, "coverage": coverage,
                "assumptions": coverage["trusted_base"], "wall_s": round(wall, 2), "violations": len(real_violations)}
    os.makedirs(os.path.join(OUT, "evidence"), exist_ok=True)
    json.dump(evidence, open(os.path.join(OUT, "evidence", f"{pid}.json"), "w"), indent=1, default=str)

    for l in known_hits:
        print(l)
    for l in out_lines:
        print(l)
    print(f"[{pid}] classes {len(proved)}/{n_obl} discharged, data {sum(1 for d in data_res if d['ok'])}/{len(data_res)}, "
          f"native evals {nat_eval}, bounded evals {b_eval}, undecided {len(undecided)}, violations {len(real_violations)}, {wall:.1f}s")
    for u in undecided[:10]:
        print("  undecided:", u)
    if real_violations:
        return 1
    if undecided:
        return 2
    if n_obl + len(data_res) + nat_eval + b_eval == 0:
        print("  no obligation and no evaluation: refusing to report a pass")
        return 2
    return 0


def match_known(v, known):
    """A recorded finding suppresses exactly the failures it describes: the obligation name, or the bounded
    clause together with every listed marker of the failing input / history.  Anything else is reported."""
    blob = json.dumps(v.get("input"), default=str, sort_keys=True)
    for k in known:
        if k.get("obligation") and k["obligation"] == v["name"]:
            return k
        if k.get("check_prefix") and str(v["name"]).startswith(k["check_prefix"]):
            if all(m in blob for m in k.get("input_contains", [])) and all(re.search(rx, blob) for rx in k.get("input_regex", [])):
                return k
    return None


def write_ledger(pids):
    R = load_all()
    os.makedirs(os.path.join(HERE, "ledger"), exist_ok=True)
    for pid in pids:
        cs, ls, ds = R.for_property(pid)
        from vf.pyvc.driver import run_jobs, as_oblig
        obs, res, fns = [], [], {}
        jobs = [("contract", c.key) for c in cs if not (c.inline or c.trusted or c.module.startswith("<") or not c.verify)]
        jobs += [("lemma", l.name) for l in ls]
        for (kind, key), out in zip(jobs, run_jobs(R, jobs, {})):
            qual = R.contracts[key].qual if kind == "contract" else f"lemma.{key}"
            if "obligs" not in out:
                print(f"  {pid}: {qual} not generated: {out.get('unsupported') or out.get('missing') or out.get('engine_error')}")
                continue
            if kind == "contract":
                fns[qual] = out["sha256"]
            obs.extend(as_oblig(d) for d in out["obligs"])
            res.extend(out["results"])
        ok, covers = set(), set()
        bad = set()
        hints = {}
        slowest = {}
        for o, r in zip(obs, res):
            if o.expect_sat:
                if r["verdict"] != "unsat":
                    covers.add(o.name)
                continue
            (ok if r["verdict"] == "unsat" else bad).add(o.name)
            if r["verdict"] != "unsat":
                print(f"  not discharged: {o.name} path {o.path} line {o.line}: {r['verdict']} after {r['time']:.1f}s ({r['reason'][:160]})")
            if r["verdict"] == "unsat" and ((r["solver"] or "").startswith("cvc5") or r.get("prefer") == "cvc5"):
                hints[o.name] = "cvc5"
            elif r["verdict"] == "unsat" and " rel" in (r["solver"] or "") and r["time"] > 1.0 and o.name not in hints:
                hints[o.name] = "rel" + (r["solver"].split(" rel")[1][:1])
            elif r["verdict"] == "unsat" and " cfg" in (r["solver"] or "") and hints.get(o.name) != "cvc5":
                sv = r["solver"]
                ci = int(sv.split(" cfg")[1].split()[0])
                if (ci != 0 or sv.endswith("slow")) and (o.name not in hints or r["time"] > slowest.get(o.name, 0)):
                    hints[o.name] = f"z3:cfg{ci}"
                    slowest[o.name] = r["time"]
        ok -= bad
        json.dump({"classes": sorted(ok), "covers": sorted(covers), "functions": fns, "hints": hints}, open(os.path.join(HERE, "ledger", f"{pid}.json"), "w"), indent=1)
        print(f"{pid}: {len(ok)} classes in ledger, {len(bad)} not discharged: {sorted(bad)[:8]}")


def replay(path):
    rec = json.load(open(path))
    print(json.dumps({k: rec[k] for k in ("property", "obligation", "clause", "failing_input")}, indent=1, default=str))
    fi = rec.get("failing_input")
    if not fi or not rec.get("contract") or "args" not in fi:
        print("no concrete input recorded (no-failing-input-found): solver output follows")
        print(json.dumps(rec.get("solver_output"), indent=1, default=str)[:4000])
        return 0
    R = load_all()
    c = next((c for c in R.contracts.values() if c.qual == rec["contract"]), None)
    if c is None:
        print("contract not found")
        return 3
    from vf.rtc.native import check_contract as cc

    saved = c.native_gen
    c.native_gen = {k: (lambda rng, v=v: [v]) for k, v in fi["args"].items()}
    r = cc(c, R, 0, 10)
    c.native_gen = saved
    print("native re-run:", json.dumps(r["failures"][:1] or "clause holds on this tree", default=str))
    return 1 if r["failures"] else 0


def main(argv):
    if not argv:
        print(__doc__)
        return 3
    if argv[0] == "replay":
        return replay(argv[1])
    if argv[0] == "ledger":
        write_ledger(argv[1:] or sorted(LEVELS))
        return 0
    if argv[0] == "list":
        R = load_all()
        for pid in sorted(LEVELS):
            cs, ls, ds = R.for_property(pid)
            print(pid, [c.qual + (" [T]" if c.trusted else " [inl]" if c.inline else "") for c in cs], [l.name for l in ls], [d.name for d in ds])
        return 0
    pid = argv[0]
    tier = os.environ.get("VERIF_TIER", "quick")
    if "--tier" in argv:
        tier = argv[argv.index("--tier") + 1]
    seed = int(os.environ.get("VERIF_SEED", "0"))
    try:
        return run_property(pid, tier, seed)
    except Exception:
        traceback.print_exc()
        return 3


if __name__ == "__main__":
    sys.exit(main(sys.argv[1:]))
