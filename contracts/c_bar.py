"""Contracts for rich.bar.Bar (C08 / C01): the bar line is exactly `width` characters."""


import z3


def _glyph_list(tag, n):
    def make(ex):
        """A table of block glyphs seen abstractly: `n` strings of one character occupying one cell each
        (data obligation bar.glyphs_single_cell checks the real constants)."""
        from vf.pyvc import seqs
        from vf.pyvc.sorts import LIST, STR, V

        ldt = ex.U.z3sort(LIST(STR))
        sdt = ex.U.z3sort(STR)
        c = z3.Const(f"{tag}_GLYPHS", ldt)
        ex.global_facts.append(ldt.len(c) == n)
        for i in range(n):
            g = ldt.arr(c)[i]
            ex.global_facts.append(z3.And(sdt.len(g) == 1, seqs.W(sdt.arr(g)[0]) == 1))
        return V(LIST(STR), c)
    return make


def register(R):
    R.const_overrides[("rich.bar", "BEGIN_BLOCK_ELEMENTS")] = _glyph_list("BEGIN_BLOCK", 8)
    R.const_overrides[("rich.bar", "END_BLOCK_ELEMENTS")] = _glyph_list("END_BLOCK", 8)
    R.record("Bar", [("size", "float"), ("begin", "float"), ("end", "float"), ("width", "Optional[int]"), ("style", "Optional[Style]")],
             pyclass="rich.bar.Bar", mutable=True)
    R.specfn("bar_w", ["b", "o"], "min(b.width or o.max_width, o.max_width)")
    R.contract("rich.segment", "Segment.line", serves=["C08", "C01"], inline=True)
    R.contract(
        "rich.bar", "Bar.__rich_console__", serves=["C08", "C01"],
        params={"self": "Bar", "console": "opaque:Console", "options": "ConsoleOptions"},
        returns="list[Segment]", ghost={"yields": "Segment"},
        # what Bar.__init__ establishes (begin = max(begin, 0), end = min(end, size)) and a positive width
        requires=["self.begin >= 0", "self.end <= self.size", "options.max_width >= 1", "implies(self.width is not None, self.width >= 1)"],
        ensures=[
            "len(result) == 2",
            "len(result[0].text) == bar_w(self, options)",
        ],
        hints=[
            # the two nonlinear facts (0 <= b < e <= s, w >= 1  =>  0 <= 8wb/s <= 8we/s <= 8w); everything after them is linear
            "implies(self.begin < self.end, 0 <= bar_w(self, options) * 8 * self.begin / self.size and bar_w(self, options) * 8 * self.begin / self.size <= bar_w(self, options) * 8 * self.end / self.size)",
            "implies(self.begin < self.end, bar_w(self, options) * 8 * self.end / self.size <= bar_w(self, options) * 8)",
        ],
        native=False,
    )

    def glyphs_single_cell():
        from rich import bar as rbar
        from vf.rtc.specnative import cells
        bad, n = [], 0
        for name in ("BEGIN_BLOCK_ELEMENTS", "END_BLOCK_ELEMENTS"):
            tbl = getattr(rbar, name)
            if len(tbl) != 8:
                bad.append(f"{name} has {len(tbl)} entries")
            for i, g in enumerate(tbl):
                n += 1
                if not (len(g) == 1 and cells(g) == 1):
                    bad.append(f"{name}[{i}]={g!r}")
        n += 1
        if not (len(rbar.FULL_BLOCK) == 1 and cells(rbar.FULL_BLOCK) == 1):
            bad.append(f"FULL_BLOCK={rbar.FULL_BLOCK!r}")
        return (not bad, "; ".join(bad[:4]) or "both glyph tables have 8 entries of one character, one cell; FULL_BLOCK too", n)

    R.data_obligation("bar.glyphs_single_cell", ["C08", "C01"], glyphs_single_cell,
                      "the abstract view of BEGIN/END_BLOCK_ELEMENTS used by Bar.__rich_console__'s proof (8 one-character, one-cell strings) holds for the real tables, so characters == cells on the bar line")
