"""Contracts for rich.box.Box row builders (C07 / C08): the row text is edge + columns + dividers."""
from vf.pyvc.contracts import Loop

GLYPHS = ["top_left", "top", "top_divider", "top_right", "head_row_left", "head_row_horizontal", "head_row_cross", "head_row_right",
          "mid_left", "mid_vertical", "mid_right", "row_left", "row_horizontal", "row_cross", "row_right",
          "foot_row_left", "foot_row_horizontal", "foot_row_cross", "foot_row_right", "bottom_left", "bottom", "bottom_divider", "bottom_right"]


def register(R):
    R.record("Box", [(g, "str") for g in GLYPHS], pyclass="rich.box.Box")
    # every box glyph is one character occupying one cell (data obligation box.glyphs_single_cell)
    R.specfn("glyph", ["s"], "len(s) == 1 and cells(s) == 1")
    R.specfn("row_len", ["widths"], "lsum(widths) + max(len(widths) - 1, 0)")
    INV = lambda fill: [
        "all(widths[j] >= 0 for j in range(len(widths)))",
        # characters so far: edge + the columns done + one divider after each column but the last
        f"joinlen(parts) == {fill} + lsum(widths[:i]) + (i if i < len(widths) else max(len(widths) - 1, 0))",
        f"joincells(parts) == joinlen(parts)",
    ]
    for name, g in (("get_top", ("top_left", "top", "top_divider", "top_right")), ("get_bottom", ("bottom_left", "bottom", "bottom_divider", "bottom_right"))):
        R.contract(
            "rich.box", f"Box.{name}", serves=["C07", "C08"],
            params={"self": "Box", "widths": "list[int]"}, returns="str",
            requires=["all(widths[j] >= 0 for j in range(len(widths)))"] + [f"glyph(self.{x})" for x in g],
            ensures=["len(result) == 2 + row_len(widths)", "cells(result) == 2 + row_len(widths)"],
            loops={0: Loop(header="for last, width in loop_last(widths)", index="i", invariant=INV("1"))},
            native=False,
        )
    R.contract(
        "rich.box", "Box.get_row", serves=["C07", "C08"],
        params={"self": "Box", "widths": "list[int]", "level": "ostr", "edge": "bool"}, returns="str",
        requires=["all(widths[j] >= 0 for j in range(len(widths)))"] + [f"glyph(self.{x})" for x in GLYPHS[4:19]],
        raises={"ValueError": "not (level == 'head' or level == 'row' or level == 'mid' or level == 'foot')"},
        ensures=["len(result) == (2 if edge else 0) + row_len(widths)", "cells(result) == (2 if edge else 0) + row_len(widths)"],
        loops={0: Loop(header="for last, width in loop_last(widths)", index="i", invariant=INV("(1 if edge else 0)"))},
        native=False,
    )

    def glyphs_single_cell():
        from rich import box as rbox
        from vf.rtc.specnative import cells
        bad, n = [], 0
        for name in dir(rbox):
            b = getattr(rbox, name)
            if isinstance(b, rbox.Box):
                for g in GLYPHS + ["head_left", "head_vertical", "head_right", "foot_left", "foot_vertical", "foot_right"]:
                    v = getattr(b, g)
                    n += 1
                    if not (len(v) == 1 and cells(v) == 1):
                        bad.append(f"{name}.{g}={v!r}")
        return (not bad, "; ".join(bad[:4]) or "every glyph of every Box constant is one character, one cell", n)

    R.data_obligation("box.glyphs_single_cell", ["C07", "C08"], glyphs_single_cell, "precondition `glyph(...)` of the Box contracts holds for every Box in rich.box")
