"""Contracts for rich.table column-width arithmetic (C07 / C01)."""
from vf.pyvc.contracts import Loop


def register(R):
    INV = [
        "len(widths) == len(old(widths))",
        "all(0 <= widths[i] and widths[i] <= old(widths)[i] for i in range(len(widths)))",
        "all(implies(not wrapable[i], widths[i] == old(widths)[i]) for i in range(len(widths)))",
        "total_width == lsum(widths)",
        "excess_width == total_width - max_width",
        # never shrunk below the target: either still at or above max_width, or untouched
        "lsum(widths) >= max_width or lsum(widths) == lsum(old(widths))",
    ]
    R.contract(
        "rich.table", "Table._collapse_widths", serves=["C07", "C01"],
        params={"widths": "list[int]", "wrapable": "list[bool]", "max_width": "int"}, returns="list[int]", pure=True,
        requires=["len(widths) == len(wrapable)", "all(widths[i] >= 0 for i in range(len(widths)))"],
        ensures=[
            "len(result) == len(widths)",
            "all(0 <= result[i] and result[i] <= widths[i] for i in range(len(widths)))",
            # columns that may not wrap keep their width
            "all(implies(not wrapable[i], result[i] == widths[i]) for i in range(len(widths)))",
            # collapsing never goes below the width it was asked to reach
            "lsum(result) >= max_width or lsum(result) == lsum(widths)",
            # when every column may wrap the target is reached (C01: a table whose columns are free to wrap fits)
            "implies(max_width >= 0 and all(wrapable[i] for i in range(len(wrapable))), lsum(result) <= max(max_width, 0) or lsum(result) <= lsum(widths) and lsum(widths) <= max_width)",
        ],
        loops={0: Loop(header="while total_width and excess_width > 0", invariant=INV)},
        lemmas=["psum_nonpos"],
    )


def register_widths(R):
    R.record("Column", [("width", "Optional[int]"), ("min_width", "Optional[int]"), ("max_width", "Optional[int]"),
                        ("ratio", "Optional[int]"), ("no_wrap", "bool"), ("_index", "int")], pyclass="rich.table.Column")
    R.record("_Cell", [("renderable", "opaque:Renderable")], pyclass="rich.table._Cell")
    R.record("TableW", [("columns", "list[Column]"), ("_expand", "bool"), ("width", "Optional[int]"), ("min_width", "Optional[int]"),
                        ("box", "Optional[opaque:Box]"), ("show_edge", "bool"), ("padding", "tuple[int,int,int,int]"),
                        ("collapse_padding", "bool")], pyclass="rich.table.Table", mutable=True)
    for prop in ("Column.flexible", "Table.expand", "Table._extra_width", "Table._get_padding_width"):
        R.contract("rich.table", prop, serves=["C07", "C01", "C14"], inline=True)
    R.contract("rich.table", "Table._get_cells", serves=["C07", "C01", "C14"],
               params={"self": "TableW", "console": "Console", "column_index": "int", "column": "Column"}, returns="list[_Cell]",
               raises={"Exception": "*"},
               trusted="yields the header / body / footer cells of a column wrapped in padding; any list of renderables (no property assumed); "
                       "may raise what user renderables raise")
    # table well-formedness used below: padding is non-negative (Padding.unpack of user input; negative padding is rejected at render)
    R.specfn("wf_table", ["t"], "t.padding[0] >= 0 and t.padding[1] >= 0 and t.padding[2] >= 0 and t.padding[3] >= 0")
    R.specfn("wf_column", ["c"], "implies(c.width is not None, c.width >= 0) and implies(c.min_width is not None, c.min_width >= 0)"
                                 " and implies(c.max_width is not None, c.max_width >= 0) and implies(c.ratio is not None, c.ratio >= 0)")
    R.contract(
        "rich.table", "Table._measure_column", serves=["C07", "C01", "C09", "C14"],
        params={"self": "TableW", "console": "Console", "column": "Column", "max_width": "int"}, returns="Measurement",
        requires=["wf_table(self)", "wf_column(column)"],
        raises={"Exception": "*"},
        ensures=[
            "result.minimum <= result.maximum",
            "result.maximum >= 0",
            "implies(max_width < 1, result.minimum == 0 and result.maximum == 0)",
            # without a column min_width the measured range never exceeds what was offered
            "implies(column.min_width is None, result.maximum <= max(max_width, 0))",
        ],
        loops={0: Loop(header="for cell in self._get_cells(console, column._index, column)", index="i",
                       invariant=["len(min_widths) == i and len(max_widths) == i",
                                  "all(0 <= min_widths[j] and min_widths[j] <= max_widths[j] and max_widths[j] <= max(max_width, 0) for j in range(i))"])},
        native=False,
    )

    R.contract(
        "rich.table", "Table._calculate_column_widths", serves=["C07", "C01", "C14"],
        params={"self": "TableW", "console": "Console", "max_width": "int"}, returns="list[int]",
        requires=["wf_table(self)", "all(wf_column(self.columns[i]) for i in range(len(self.columns)))",
                  "implies(self.min_width is not None, self.min_width >= 0)"],
        raises={"Exception": "*"},
        ensures=[
            "len(result) == len(self.columns)",
            "all(result[i] >= 1 for i in range(len(result)))",
            # asked to expand: at least the available width is used (C07; equality needs the upper bound, which is bounded-only)
            "implies((self._expand or self.width is not None) and len(self.columns) > 0, lsum(result) >= max_width)",
        ],
        loops={0: Loop(header="for index, column in enumerate(columns)", index="i",
                       invariant=["len(widths) == len(columns)", "all(widths[j] >= 1 for j in range(len(widths)))"])},
        native=False,
    )


_t0 = register


def register(R):
    _t0(R)
    register_widths(R)
