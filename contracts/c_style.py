"""Contracts for rich.style.Style (C06 algebra + hashing; pieces reused by C03)."""
from vf.pyvc.contracts import Loop

STYLE_FIELDS = [
    ("_color", "Optional[Color]"), ("_bgcolor", "Optional[Color]"),
    ("_attributes", "int"), ("_set_attributes", "int"),
    ("_link", "Optional[ostr]"), ("_link_id", "ostr"),
    ("_ansi", "Optional[tuple[int,str]]"), ("_style_definition", "Optional[ostr]"),
    ("_hash", "int"), ("_null", "bool"),
]

FIELDS_EQ = ("a._color == b._color and a._bgcolor == b._bgcolor and a._attributes == b._attributes"
             " and a._set_attributes == b._set_attributes and a._link == b._link")


def _null_style(ex):
    """NULL_STYLE = Style(): seen as a constant with exactly the facts the data obligation
    `NULL_STYLE.is_null_and_wf` checks natively on the real object"""
    import z3
    from vf.pyvc.sorts import V
    from vf.pyvc.state import State

    so = ex.U.rec("Style")
    v = V(so, z3.Const("NULL_STYLE", ex.U.z3sort(so)))
    st = State()
    ex.global_facts.append(ex.spec_bool("wf_style(n) and n._null", {"n": v}, st))
    ex.global_facts.extend(st.pc)
    return v


def register(R):
    R.const_overrides[("rich.style", "NULL_STYLE")] = _null_style
    R.record("Style", STYLE_FIELDS, pyclass="rich.style.Style", mutable=False)
    R.specfn("truthy_Style", ["s"], "not s._null")
    # Style.__eq__ compares exactly these five fields
    R.specfn("style_eq", ["a", "b"], FIELDS_EQ)
    R.specfn("style_hash", ["s"], "hash((s._color, s._bgcolor, s._attributes, s._set_attributes, s._link))")
    R.specfn("wf_style", ["s"],
             "0 <= s._attributes and s._attributes < 8192 and 0 <= s._set_attributes and s._set_attributes < 8192"
             " and (s._attributes & ~s._set_attributes) == 0"
             " and implies(s._null, s._color is None and s._bgcolor is None and s._set_attributes == 0 and s._attributes == 0 and not s._link)"
             " and s._hash == style_hash(s)"
             # the cached string form, when present, is the one of these very fields
             " and implies(s._style_definition is not None, s._style_definition == style_defn(s._color, s._bgcolor, s._attributes, s._set_attributes, s._link))"
             " and ansi_cache_ok(s)")
    R.ufun("style_defn", "ostr")
    # the cached SGR parameter string, when present, is the one of these very fields for the colour system it was made for
    # (links are not part of it): a cache entry may only travel to a style with the same colours and attributes
    R.ufun("style_ansi", "str")
    R.specfn("ansi_cache_ok", ["s"],
             "implies(s._ansi is not None, s._ansi[1] == style_ansi(s._color, s._bgcolor, s._attributes & s._set_attributes, s._ansi[0]))")
    # the property's combination rule, per field: the right operand wins exactly where it specifies a value
    R.specfn("add_color", ["a", "b"], "b._color if b._color is not None else a._color")
    R.specfn("add_bgcolor", ["a", "b"], "b._bgcolor if b._bgcolor is not None else a._bgcolor")
    R.specfn("add_attrs", ["a", "b"], "(a._attributes & ~b._set_attributes) | (b._attributes & b._set_attributes)")
    R.specfn("add_set", ["a", "b"], "a._set_attributes | b._set_attributes")
    R.specfn("add_link", ["a", "b"], "b._link if b._link else a._link")

    R.contract(
        "rich.style", "Style.__add__", serves=["C06"], bv=True,
        params={"self": "Style", "style": "Optional[Style]"}, returns="Style",
        requires=["wf_style(self)", "implies(style is not None, wf_style(style))"],
        ensures=[
            "implies(style is None, style_eq(result, self))",
            "implies(style is not None, result._color == add_color(self, style))",
            "implies(style is not None, result._bgcolor == add_bgcolor(self, style))",
            "implies(style is not None, result._attributes == add_attrs(self, style))",
            "implies(style is not None, result._set_attributes == add_set(self, style))",
            "implies(style is not None, iff(result._link, add_link(self, style)) and implies(add_link(self, style), result._link == add_link(self, style)))",
            "wf_style(result)",
        ],
        native=False,
    )
    for name in ("copy", "without_color"):
        R.contract(
            "rich.style", f"Style.{name}", serves=["C06", "C03"] if name == "without_color" else ["C06"], bv=True,
            params={"self": "Style"}, returns="Style",
            requires=["wf_style(self)"],
            ensures=["wf_style(result)"] + (
                ["result._color == self._color and result._bgcolor == self._bgcolor and result._attributes == self._attributes and result._set_attributes == self._set_attributes",
                 "iff(result._link, self._link) and implies(self._link, result._link == self._link)"] if name == "copy" else
                ["result._color is None and result._bgcolor is None",
                 "result._attributes == self._attributes and result._set_attributes == self._set_attributes",
                 "implies(not self._null, result._link == self._link)"]),
            native=False,
        )
    R.contract(
        "rich.style", "Style.update_link", serves=["C06"], bv=True,
        params={"self": "Style", "link": "Optional[ostr]"}, returns="Style",
        requires=["wf_style(self)"],
        ensures=["result._link == link", "result._color == self._color and result._bgcolor == self._bgcolor",
                 "result._attributes == self._attributes and result._set_attributes == self._set_attributes",
                 "result._hash == style_hash(result)",
                 "implies(result._style_definition is not None, result._style_definition == style_defn(result._color, result._bgcolor, result._attributes, result._set_attributes, result._link))",
                 "ansi_cache_ok(result)"],
        native=False,
    )
    R.contract(
        "rich.style", "Style.from_color", serves=["C06"], bv=True,
        params={"color": "Optional[Color]", "bgcolor": "Optional[Color]"}, returns="Style",
        ensures=["result._color == color and result._bgcolor == bgcolor", "result._attributes == 0 and result._set_attributes == 0",
                 "result._link is None", "wf_style(result)"],
        native=False,
    )
    R.contract("rich.style", "Style.__eq__", serves=["C06"], bv=True,
               params={"self": "Style", "other": "Style"}, returns="bool",
               ensures=["result == style_eq(self, other)"], native=False)
    R.contract("rich.style", "Style.__hash__", serves=["C06"], bv=True,
               params={"self": "Style"}, returns="int",
               ensures=["result == self._hash"], native=False)
    R.lemma(
        "style_eq_implies_equal_hash", serves=["C06"], bv=True,
        vars={"a": "Style", "b": "Style"},
        assumes=["wf_style(a)", "wf_style(b)", "style_eq(a, b)"],
        claims=["a._hash == b._hash"],
        notes="with Style.__eq__ / __hash__ contracts: equal styles have equal hashes for every construction route that establishes wf_style",
    )
    R.lemma(
        "style_add_associative", serves=["C06"], bv=True,
        vars={"a": "Style", "b": "Style", "c": "Style"},
        assumes=["wf_style(a)", "wf_style(b)", "wf_style(c)"],
        claims=[
            # colour / bgcolor: the last operand that specifies one wins
            "(c._color if c._color is not None else add_color(a, b)) == (add_color(b, c) if add_color(b, c) is not None else a._color)",
            "(c._bgcolor if c._bgcolor is not None else add_bgcolor(a, b)) == (add_bgcolor(b, c) if add_bgcolor(b, c) is not None else a._bgcolor)",
            "((add_attrs(a, b) & ~c._set_attributes) | (c._attributes & c._set_attributes)) == ((a._attributes & ~add_set(b, c)) | (add_attrs(b, c) & add_set(b, c)))",
            "(add_set(a, b) | c._set_attributes) == (a._set_attributes | add_set(b, c))",
            "(c._link if c._link else add_link(a, b)) == (add_link(b, c) if add_link(b, c) else a._link) or (not (c._link if c._link else add_link(a, b)) and not (add_link(b, c) if add_link(b, c) else a._link))",
        ],
        notes="associativity of the combination rule, field by field, over the spec functions that Style.__add__ is proved against",
    )
    R.lemma(
        "style_null_identity", serves=["C06"], bv=True,
        vars={"a": "Style", "n": "Style"},
        assumes=["wf_style(a)", "wf_style(n)", "n._null"],
        claims=["add_color(a, n) == a._color and add_color(n, a) == a._color",
                "add_attrs(a, n) == a._attributes and add_attrs(n, a) == a._attributes",
                "add_set(a, n) == a._set_attributes and add_set(n, a) == a._set_attributes",
                "iff(add_link(a, n), a._link) and iff(add_link(n, a), a._link)"],
    )
