"""Contracts for rich.live_render / rich.control (C10: cursor strings vs the recorded shape)."""


def register(R):
    R.record("Segment", [("text", "str"), ("style", "Optional[Style]"), ("is_control", "bool")], pyclass="rich.segment.Segment")
    R.record("Control", [("_control_codes", "Segment")], pyclass="rich.control.Control", mutable=True)
    R.record("LiveRender", [("_shape", "Optional[tuple[int,int]]")], pyclass="rich.live_render.LiveRender", mutable=True)
    R.contract("rich.control", "Control.__init__", serves=["C10"], inline=True)
    R.contract("rich.segment", "Segment.control", serves=["C10"], inline=True)
    # To clear a live region of h lines with the cursor on its last line: carriage return, erase line, then
    # (h - 1) times (cursor up one, erase line) — written from ECMA-48 (CR, EL 2, CUU 1), not from the code.
    R.contract(
        "rich.live_render", "LiveRender.position_cursor", serves=["C10"],
        params={"self": "LiveRender"}, returns="Control",
        ensures=[
            "implies(self._shape is None, result._control_codes.text == '')",
            "implies(self._shape is not None, result._control_codes.text == '\\r\\x1b[2K' + '\\x1b[1A\\x1b[2K' * (self._shape[1] - 1))",
            "result._control_codes.is_control",
        ],
        native=False,
    )
    # restore (transient display), called after the terminating new line: the cursor is max(1, h) rows below
    # the top of the region (an empty region still got the new line): carriage return, then that many
    # times (cursor up one, erase line)
    R.contract(
        "rich.live_render", "LiveRender.restore_cursor", serves=["C10"],
        params={"self": "LiveRender"}, returns="Control",
        ensures=[
            "implies(self._shape is None, result._control_codes.text == '')",
            "implies(self._shape is not None, result._control_codes.text == '\\r' + '\\x1b[1A\\x1b[2K' * max(1, self._shape[1]))",
            "result._control_codes.is_control",
        ],
        native=False,
    )
