"""Contracts for the start/stop protocol of Live and Progress (C10): cleanup on every path.

The console is seen through three ghost-like fields that stand for its observable effects:
hook_depth (len of the render-hook stack), cursor_visible (last DECTCEM code), and the process-wide
streams sys.stdout / sys.stderr are the ghost globals ghost_sys_stdout / ghost_sys_stderr.
Every call inside the try block that can run user code (refresh -> renderable) may raise: the
exceptional postconditions therefore cover an exception at every such call site at once.
"""


def register(R):
    R.record("ConsoleL", [("hook_depth", "int"), ("cursor_visible", "bool"), ("is_terminal", "bool"), ("is_jupyter", "bool")],
             pyclass="rich.console.Console", mutable=True)
    R.record("LiveL", [("_lock", "opaque:RLock"), ("_started", "bool"), ("vertical_overflow", "ostr"), ("auto_refresh", "bool"),
                       ("_refresh_thread", "Optional[opaque:Thread]"), ("console", "ConsoleL"), ("transient", "bool"),
                       ("_live_render", "LiveRender"), ("ipy_widget", "Optional[opaque:Widget]"),
                       ("_redirect_stdout", "bool"), ("_redirect_stderr", "bool"),
                       ("_restore_stdout", "Optional[opaque:IO]"), ("_restore_stderr", "Optional[opaque:IO]"),
                       ("refresh_per_second", "float")],
             pyclass="rich.live.Live", mutable=True)
    T = "effects of the real Console method restated on the ghost fields (by inspection of console.py)"
    R.contract("rich.console", "Console.show_cursor", serves=["C10"], params={"self": "ConsoleL", "show": "bool"},
               modifies=["self.cursor_visible"], ensures=["self.cursor_visible == show"], trusted=T + ": emits DECTCEM show/hide on a terminal")
    R.contract("rich.console", "Console.push_render_hook", serves=["C10"], params={"self": "ConsoleL", "hook": "LiveL"},
               modifies=["self.hook_depth"], ensures=["self.hook_depth == old(self.hook_depth) + 1"], trusted=T)
    R.contract("rich.console", "Console.pop_render_hook", serves=["C10"], params={"self": "ConsoleL"},
               modifies=["self.hook_depth"], ensures=["self.hook_depth == old(self.hook_depth) - 1"], trusted=T)
    R.contract("rich.console", "Console.line", serves=["C10"], params={"self": "ConsoleL", "count": "int"}, raises={"BaseException": "*"},
               trusted="prints new lines through the render hooks: may raise whatever the live renderable raises; touches neither hooks, cursor nor streams")
    R.contract("rich.console", "Console.control", serves=["C10"], params={"self": "ConsoleL", "control_codes": "Control"},
               trusted="writes control codes; touches neither hooks, cursor flag nor streams")
    R.contract("rich.live", "Live.refresh", serves=["C10"], params={"self": "LiveL"}, raises={"BaseException": "*"},
               trusted="renders the live renderable (user code): may raise anything at any render; does not touch hooks, cursor flag, streams or _started")
    R.contract("<opaque>", "Thread.stop", serves=["C10"], params={"self": "opaque:Thread"}, trusted="sets the refresh thread's done event")
    R.contract("<opaque>", "Thread.join", serves=["C10"], params={"self": "opaque:Thread"}, trusted="waits for the refresh thread")
    R.contract("<opaque>", "Thread.start", serves=["C10"], params={"self": "opaque:Thread"}, trusted="starts the refresh thread")
    R.contract("<opaque>", "Widget.close", serves=["C10"], params={"self": "opaque:Widget"}, trusted="jupyter only")
    R.opaque_classes[("rich.live", "_RefreshThread")] = "Thread"
    R.opaque_classes[("rich.progress", "_RefreshThread")] = "Thread"
    R.contract("rich.live", "Live._disable_redirect_io", serves=["C10"], inline=True)
    R.contract("rich.live", "Live._enable_redirect_io", serves=["C10"], inline=True)
    R.opaque_classes[("rich.file_proxy", "FileProxy")] = "IO"

    CLEAN = [
        "not self._started",
        "self.console.hook_depth == old(self.console.hook_depth) - 1",
        "self.console.cursor_visible",
        "implies(old(self._restore_stdout) is not None, ghost_sys_stdout == old(self._restore_stdout))",
        "implies(old(self._restore_stdout) is None, ghost_sys_stdout == old(ghost_sys_stdout))",
        "implies(old(self._restore_stderr) is not None, ghost_sys_stderr == old(self._restore_stderr))",
        "self._restore_stdout is None and self._restore_stderr is None",
        "self.vertical_overflow == old(self.vertical_overflow)",
    ]
    R.contract(
        "rich.live", "Live.stop", serves=["C10"],
        params={"self": "LiveL"},
        ghost={"ghost_sys_stdout": "opaque:IO", "ghost_sys_stderr": "opaque:IO"},
        raises={"BaseException": "*"},
        ensures=["implies(old(self._started), " + c + ")" for c in CLEAN] + ["implies(not old(self._started), self.console.hook_depth == old(self.console.hook_depth))"],
        ensures_raise={"BaseException": CLEAN},
        native=False,
        notes="cleanup holds on the normal path and on every exceptional path out of the try block; the exception propagates",
    )
    R.contract(
        "rich.live", "Live.start", serves=["C10"],
        params={"self": "LiveL"},
        ghost={"ghost_sys_stdout": "opaque:IO", "ghost_sys_stderr": "opaque:IO"},
        requires=["self._restore_stdout is None and self._restore_stderr is None"],
        ensures=[
            "self._started",
            "implies(not old(self._started), self.console.hook_depth == old(self.console.hook_depth) + 1 and not self.console.cursor_visible)",
            "implies(not old(self._started) and self.console.is_terminal and self._redirect_stdout, self._restore_stdout == old(ghost_sys_stdout))",
            "implies(not old(self._started) and self.console.is_terminal and self._redirect_stderr, self._restore_stderr == old(ghost_sys_stderr))",
            "implies(not old(self._started) and not (self.console.is_terminal and self._redirect_stdout), ghost_sys_stdout == old(ghost_sys_stdout) and self._restore_stdout is None)",
        ],
        native=False,
    )


def register_progress(R):
    R.record("ProgressL", [("_lock", "opaque:RLock"), ("_started", "bool"), ("auto_refresh", "bool"),
                           ("_refresh_thread", "Optional[opaque:Thread]"), ("console", "ConsoleL"), ("transient", "bool"),
                           ("_live_render", "LiveRender"), ("ipy_widget", "Optional[opaque:Widget]"),
                           ("_redirect_stdout", "bool"), ("_redirect_stderr", "bool"),
                           ("_restore_stdout", "Optional[opaque:IO]"), ("_restore_stderr", "Optional[opaque:IO]"),
                           ("refresh_per_second", "float")],
             pyclass="rich.progress.Progress", mutable=True)
    R.contract("rich.progress", "Progress._disable_redirect_io", serves=["C10"], inline=True)
    R.contract("rich.progress", "Progress._enable_redirect_io", serves=["C10"], inline=True)
    R.contract("<opaque>", "Widget.clear_output", serves=["C10"], params={"self": "opaque:Widget"}, trusted="jupyter only")
    G = {"ghost_sys_stdout": "opaque:IO", "ghost_sys_stderr": "opaque:IO"}
    CLEAN = [
        "not self._started",
        "self.console.hook_depth == old(self.console.hook_depth) - 1",
        "self.console.cursor_visible",
        "implies(old(self._restore_stdout) is not None, ghost_sys_stdout == old(self._restore_stdout))",
        "implies(old(self._restore_stdout) is None, ghost_sys_stdout == old(ghost_sys_stdout))",
        "implies(old(self._restore_stderr) is not None, ghost_sys_stderr == old(self._restore_stderr))",
        "self._restore_stdout is None and self._restore_stderr is None",
    ]
    R.contract(
        "rich.progress", "Progress.stop", serves=["C10"], params={"self": "ProgressL"}, ghost=G,
        raises={"BaseException": "*"},
        ensures=["implies(old(self._started), " + c + ")" for c in CLEAN] + ["implies(not old(self._started), self.console.hook_depth == old(self.console.hook_depth))"],
        ensures_raise={"BaseException": CLEAN},
        native=False,
    )
    # start(): either the display is up (hook pushed, cursor hidden, streams saved), or — when the first
    # refresh raises — everything is as before the call and the exception propagates (__exit__ will not run)
    R.contract(
        "rich.progress", "Progress.start", serves=["C10"], params={"self": "ProgressL"}, ghost=G,
        requires=["self._restore_stdout is None and self._restore_stderr is None", "self.console.cursor_visible"],
        raises={"BaseException": "*"},
        ensures=[
            "self._started",
            "implies(not old(self._started), self.console.hook_depth == old(self.console.hook_depth) + 1 and not self.console.cursor_visible)",
            "implies(not old(self._started) and self.console.is_terminal and self._redirect_stdout, self._restore_stdout == old(ghost_sys_stdout))",
        ],
        ensures_raise={"BaseException": [
            "not self._started",
            "self.console.hook_depth == old(self.console.hook_depth)",
            "self.console.cursor_visible",
            "ghost_sys_stdout == old(ghost_sys_stdout) and ghost_sys_stderr == old(ghost_sys_stderr)",
            "self._restore_stdout is None and self._restore_stderr is None",
        ]},
        native=False,
    )


_l0 = register


def register(R):
    _l0(R)
    register_progress(R)
