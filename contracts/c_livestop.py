"""Contracts for the start/stop protocol of Live and Progress (C10): cleanup on every path.

The console is seen through three ghost-like fields that stand for its observable effects:
hook_depth (len of the render-hook stack), cursor_visible (last DECTCEM code), and the process-wide
streams sys.stdout / sys.stderr are the ghost globals ghost_sys_stdout / ghost_sys_stderr.
Every call inside the try block that can run user code (refresh -> renderable) may raise: the
exceptional postconditions therefore cover an exception at every such call site at once.
"""


def register(R):
    # buffer_depth / unwritten: this thread's buffer context (Console._buffer_index is thread-local) and whether it holds
    # rendered output that has not reached the file yet
    R.record("ConsoleL", [("hook_depth", "int"), ("cursor_visible", "bool"), ("is_terminal", "bool"), ("is_jupyter", "bool"),
                          ("is_dumb_terminal", "bool"), ("buffer_depth", "int"), ("unwritten", "bool")],
             pyclass="rich.console.Console", mutable=True)
    R.record("LiveL", [("_lock", "opaque:RLock"), ("_started", "bool"), ("vertical_overflow", "ostr"), ("auto_refresh", "bool"),
                       ("_refresh_thread", "Optional[opaque:Thread]"), ("console", "ConsoleL"), ("transient", "bool"),
                       ("_live_render", "LiveRender"), ("ipy_widget", "Optional[opaque:Widget]"),
                       ("_redirect_stdout", "bool"), ("_redirect_stderr", "bool"),
                       ("_restore_stdout", "Optional[opaque:IO]"), ("_restore_stderr", "Optional[opaque:IO]"),
                       ("refresh_per_second", "float")],
             pyclass="rich.live.Live", mutable=True)
    T = "effects of the real Console method restated on the ghost fields (by inspection of console.py)"
    R.contract("rich.console", "Console.show_cursor", serves=["C10"], params={"self": "ConsoleL", "show": "bool"},
               modifies=["self.cursor_visible"], ensures=["self.cursor_visible == show"], trusted=T + ": emits DECTCEM show/hide on a terminal")
    R.contract("rich.console", "Console.push_render_hook", serves=["C10"], params={"self": "ConsoleL", "hook": "LiveL"},
               modifies=["self.hook_depth"], ensures=["self.hook_depth == old(self.hook_depth) + 1"], trusted=T)
    R.contract("rich.console", "Console.pop_render_hook", serves=["C10"], params={"self": "ConsoleL"},
               modifies=["self.hook_depth"], ensures=["self.hook_depth == old(self.hook_depth) - 1"], trusted=T)
    R.contract("rich.console", "Console.line", serves=["C10"], params={"self": "ConsoleL", "count": "int"}, raises={"BaseException": "*"},
               trusted="prints new lines through the render hooks: may raise whatever the live renderable raises; touches neither hooks, cursor nor streams")
    R.contract("rich.console", "Console.control", serves=["C10"], params={"self": "ConsoleL", "control_codes": "Control"},
               trusted="writes control codes; touches neither hooks, cursor flag nor streams")
    # ---- the buffer protocol of Console, restated on the ghost fields (console.py: _enter_buffer / _exit_buffer / _check_buffer)
    R.contract("rich.console", "Console.__enter__", serves=["C10", "C11"], params={"self": "ConsoleL"}, returns="ConsoleL",
               modifies=["self.buffer_depth"], ensures=["self.buffer_depth == old(self.buffer_depth) + 1", "result == self"],
               trusted=T + ": _enter_buffer increments this thread's buffer index")
    R.contract("rich.console", "Console.__exit__", serves=["C10", "C11"],
               params={"self": "ConsoleL", "exc_type": "opaque:Any", "exc_value": "opaque:Any", "traceback": "opaque:Any"},
               modifies=["self.buffer_depth", "self.unwritten"],
               ensures=["self.buffer_depth == old(self.buffer_depth) - 1",
                        "implies(self.buffer_depth == 0, not self.unwritten)",
                        "implies(self.buffer_depth != 0, self.unwritten == old(self.unwritten))"],
               trusted=T + ": _exit_buffer decrements the index and _check_buffer writes the buffer to the file when the index is back to 0")
    R.contract("rich.console", "Console.print", serves=["C10", "C11"], params={"self": "ConsoleL", "objects": "Control"},
               modifies=["self.unwritten"], raises={"BaseException": "*"},
               ensures=["implies(self.buffer_depth > 0, self.unwritten)", "implies(self.buffer_depth == 0, self.unwritten == old(self.unwritten))"],
               trusted="renders through the render hooks into this thread's buffer (user renderables: may raise anything); inside a buffer context the "
                       "output stays buffered, at depth 0 it is written at once; touches neither hooks, cursor flag, streams nor _started")
    # refresh() on a terminal: the frame rendered under the display's lock is written to the file before the lock is
    # released (else another thread's frame, positioned relative to this one, can reach the screen first: C11 / C10)
    # representation invariant of a console's buffer: nothing is left unwritten outside a buffer context
    R.specfn("console_ok", ["c"], "c.buffer_depth >= 0 and implies(c.buffer_depth == 0, not c.unwritten)")
    RMON = {"lock": "_lock", "cls": "LiveL", "protects": [],
            "invariant": ["implies(old(self.console.buffer_depth) == 0, not self.console.unwritten)"]}
    R.contract("rich.live", "Live.refresh", serves=["C10", "C11"], params={"self": "LiveL"}, raises={"BaseException": "*"},
               monitor=RMON, modifies=["self.console.unwritten"],
               requires=["console_ok(self.console)"],
               scope=["not self.console.is_jupyter"],
               ensures=["self.console.buffer_depth == old(self.console.buffer_depth)",
                        "implies(old(self.console.buffer_depth) == 0, not self.console.unwritten)"],
               ensures_raise={"BaseException": ["self.console.buffer_depth == old(self.console.buffer_depth)",
                                                "implies(old(self.console.buffer_depth) == 0, not self.console.unwritten)"]},
               native=False,
               notes="may raise whatever the renderable raises; does not touch hooks, cursor flag, streams or _started (frame)")
    R.contract("<opaque>", "Thread.stop", serves=["C10"], params={"self": "opaque:Thread"}, trusted="sets the refresh thread's done event")
    R.contract("<opaque>", "Thread.join", serves=["C10"], params={"self": "opaque:Thread"}, trusted="waits for the refresh thread")
    R.contract("<opaque>", "Thread.start", serves=["C10"], params={"self": "opaque:Thread"}, trusted="starts the refresh thread")
    R.contract("<opaque>", "Widget.close", serves=["C10"], params={"self": "opaque:Widget"}, trusted="jupyter only")
    # a redirected stream is a FileProxy: flushing it prints the pending partial line through the console and its render
    # hooks, i.e. it runs the live renderable and may raise whatever that raises (FileProxy.flush -> Console.print)
    R.contract("<opaque>", "IO.flush", serves=["C10"], params={"self": "opaque:IO"}, raises={"BaseException": "*"},
               trusted="stream flush: may print through the render hooks (FileProxy) and so may raise anything; touches neither hooks, cursor flag, streams nor _started")
    R.contract("<opaque>", "IO.write", serves=["C10"], params={"self": "opaque:IO", "text": "str"}, returns="int", raises={"BaseException": "*"},
               trusted="stream write: as flush")
    R.opaque_classes[("rich.live", "_RefreshThread")] = "Thread"
    R.opaque_classes[("rich.progress", "_RefreshThread")] = "Thread"
    R.contract("rich.live", "Live._disable_redirect_io", serves=["C10"], inline=True)
    R.contract("rich.live", "Live._enable_redirect_io", serves=["C10"], inline=True)
    R.opaque_classes[("rich.file_proxy", "FileProxy")] = "IO"

    CLEAN = [
        "not self._started",
        "self.console.hook_depth == old(self.console.hook_depth) - 1",
        "self.console.cursor_visible",
        "implies(old(self._restore_stdout) is not None, ghost_sys_stdout == old(self._restore_stdout))",
        "implies(old(self._restore_stdout) is None, ghost_sys_stdout == old(ghost_sys_stdout))",
        "implies(old(self._restore_stderr) is not None, ghost_sys_stderr == old(self._restore_stderr))",
        "self._restore_stdout is None and self._restore_stderr is None",
        "self.vertical_overflow == old(self.vertical_overflow)",
    ]
    # start() / stop() decide on `_started` and change it: both only under the display's lock, or two threads starting
    # (stopping) the same display both see "not started" and set it up (tear it down) twice (C11)
    LMON = {"lock": "_lock", "cls": "LiveL", "protects": ["_started"], "invariant": []}
    R.contract(
        "rich.live", "Live.stop", serves=["C10", "C11"], monitor=LMON,
        modifies=["self._started", "self._refresh_thread", "self._restore_stdout", "self._restore_stderr", "self.console.hook_depth", "self.console.cursor_visible", "self._live_render._shape", "self.console.unwritten"],
        params={"self": "LiveL"},
        requires=["console_ok(self.console)"],
        ghost={"ghost_sys_stdout": "opaque:IO", "ghost_sys_stderr": "opaque:IO"},
        raises={"BaseException": "*"},
        ensures=["implies(acq(self._started), " + c + ")" for c in CLEAN] + ["implies(not acq(self._started), self.console.hook_depth == old(self.console.hook_depth))"],
        ensures_raise={"BaseException": CLEAN},
        native=False,
        notes="cleanup holds on the normal path and on every exceptional path out of the try block; the exception propagates",
    )
    R.contract(
        "rich.live", "Live.start", serves=["C10", "C11"], monitor=LMON,
        modifies=["self._started", "self._refresh_thread", "self._restore_stdout", "self._restore_stderr", "self.console.hook_depth", "self.console.cursor_visible"],
        params={"self": "LiveL"},
        ghost={"ghost_sys_stdout": "opaque:IO", "ghost_sys_stderr": "opaque:IO"},
        requires=["self._restore_stdout is None and self._restore_stderr is None"],
        ensures=[
            "self._started",
            "implies(not acq(self._started), self.console.hook_depth == old(self.console.hook_depth) + 1 and not self.console.cursor_visible)",
            "implies(not acq(self._started) and self.console.is_terminal and self._redirect_stdout, self._restore_stdout == old(ghost_sys_stdout))",
            "implies(not acq(self._started) and self.console.is_terminal and self._redirect_stderr, self._restore_stderr == old(ghost_sys_stderr))",
            "implies(not acq(self._started) and not (self.console.is_terminal and self._redirect_stdout), ghost_sys_stdout == old(ghost_sys_stdout) and self._restore_stdout is None)",
        ],
        native=False,
    )


def register_progress(R):
    R.record("ProgressL", [("_lock", "opaque:RLock"), ("_started", "bool"), ("auto_refresh", "bool"),
                           ("_refresh_thread", "Optional[opaque:Thread]"), ("console", "ConsoleL"), ("transient", "bool"),
                           ("_live_render", "LiveRender"), ("ipy_widget", "Optional[opaque:Widget]"),
                           ("_redirect_stdout", "bool"), ("_redirect_stderr", "bool"),
                           ("_restore_stdout", "Optional[opaque:IO]"), ("_restore_stderr", "Optional[opaque:IO]"),
                           ("refresh_per_second", "float"), ("disable", "bool")],
             pyclass="rich.progress.Progress", mutable=True)
    R.contract("rich.live_render", "LiveRender.set_renderable", serves=["C10", "C11", "C12"], params={"self": "LiveRender", "renderable": "opaque:Renderable"},
               trusted="stores the renderable to draw next (one attribute assignment); the shape is only changed by rendering")
    R.contract("rich.progress", "Progress.get_renderable", serves=["C10", "C11", "C12"], params={"self": ["ProgressL", "Progress"]}, returns="opaque:Renderable",
               raises={"BaseException": "*"},
               trusted="builds the tasks table from the columns (user code: may raise anything); only reads task fields (by inspection: "
                       "get_renderable / get_renderables / make_tasks_table)")
    PRMON = {"lock": "_lock", "cls": "ProgressL", "protects": [],
             "invariant": ["implies(old(self.console.buffer_depth) == 0, not self.console.unwritten)"]}
    R.contract("rich.progress", "Progress.refresh", serves=["C10", "C11", "C12"], params={"self": ["ProgressL", "Progress"]},
               raises={"BaseException": "*"}, monitor=PRMON, modifies=["self.console.unwritten"],
               requires=["console_ok(self.console)"], scope=["not self.console.is_jupyter"],
               ensures=["self.console.buffer_depth == old(self.console.buffer_depth)",
                        "implies(old(self.console.buffer_depth) == 0, not self.console.unwritten)"],
               ensures_raise={"BaseException": ["self.console.buffer_depth == old(self.console.buffer_depth)",
                                                "implies(old(self.console.buffer_depth) == 0, not self.console.unwritten)"]},
               native=False,
               notes="as Live.refresh: the frame rendered under the lock is on the file before the lock is released; rendering reads the tasks only "
                     "(frame: nothing but the console's buffer state is modified)")
    R.contract("rich.progress", "Progress._disable_redirect_io", serves=["C10"], inline=True)
    R.contract("rich.progress", "Progress._enable_redirect_io", serves=["C10"], inline=True)
    R.contract("<opaque>", "Widget.clear_output", serves=["C10"], params={"self": "opaque:Widget"}, trusted="jupyter only")
    G = {"ghost_sys_stdout": "opaque:IO", "ghost_sys_stderr": "opaque:IO"}
    CLEAN = [
        "not self._started",
        "self.console.hook_depth == old(self.console.hook_depth) - 1",
        "self.console.cursor_visible",
        "implies(old(self._restore_stdout) is not None, ghost_sys_stdout == old(self._restore_stdout))",
        "implies(old(self._restore_stdout) is None, ghost_sys_stdout == old(ghost_sys_stdout))",
        "implies(old(self._restore_stderr) is not None, ghost_sys_stderr == old(self._restore_stderr))",
        "self._restore_stdout is None and self._restore_stderr is None",
    ]
    PMON = {"lock": "_lock", "cls": "ProgressL", "protects": ["_started"], "invariant": []}
    R.contract(
        "rich.progress", "Progress.stop", serves=["C10", "C11"], params={"self": "ProgressL"}, ghost=G, monitor=PMON,
        modifies=["self._started", "self._refresh_thread", "self._restore_stdout", "self._restore_stderr", "self.console.hook_depth", "self.console.cursor_visible", "self._live_render._shape", "self.console.unwritten"],
        requires=["console_ok(self.console)"],
        raises={"BaseException": "*"},
        ensures=["implies(acq(self._started), " + c + ")" for c in CLEAN] + ["implies(not acq(self._started), self.console.hook_depth == old(self.console.hook_depth))"],
        ensures_raise={"BaseException": CLEAN},
        native=False,
    )
    # start(): either the display is up (hook pushed, cursor hidden, streams saved), or — when the first
    # refresh raises — everything is as before the call and the exception propagates (__exit__ will not run)
    R.contract(
        "rich.progress", "Progress.start", serves=["C10", "C11"], params={"self": "ProgressL"}, ghost=G, monitor=PMON,
        modifies=["self._started", "self._refresh_thread", "self._restore_stdout", "self._restore_stderr", "self.console.hook_depth", "self.console.cursor_visible", "self.console.unwritten"],
        requires=["self._restore_stdout is None and self._restore_stderr is None", "self.console.cursor_visible", "console_ok(self.console)"],
        raises={"BaseException": "*"},
        ensures=[
            "self._started",
            "implies(not acq(self._started), self.console.hook_depth == old(self.console.hook_depth) + 1 and not self.console.cursor_visible)",
            "implies(not acq(self._started) and self.console.is_terminal and self._redirect_stdout, self._restore_stdout == old(ghost_sys_stdout))",
        ],
        ensures_raise={"BaseException": [
            "not self._started",
            "self.console.hook_depth == old(self.console.hook_depth)",
            "self.console.cursor_visible",
            "ghost_sys_stdout == old(ghost_sys_stdout) and ghost_sys_stderr == old(ghost_sys_stderr)",
            "self._restore_stdout is None and self._restore_stderr is None",
        ]},
        native=False,
    )


_l0 = register


def register(R):
    _l0(R)
    register_progress(R)
