"""Sidecar contracts for willmcgugan/rich (nothing in /repo is edited)."""
import importlib
import pkgutil

from vf.pyvc.contracts import Registry


def load_all() -> Registry:
    R = Registry()
    import contracts as pkg

    for m in sorted(pkgutil.iter_modules(pkg.__path__), key=lambda m: m.name):
        if m.name.startswith(("c_", "z_")):
            importlib.import_module(f"contracts.{m.name}").register(R)
    return R
