"""Contracts for rich.console recording / export (C15) and buffer flushing (C11/C15)."""


def register(R):
    R.record("ConsoleR", [("record", "bool"), ("_record_buffer", "list[Segment]"), ("_record_buffer_lock", "opaque:RLock")],
             pyclass="rich.console.Console", mutable=True)
    # the visible text of a record: texts of the non-control segments, in order, concatenated
    R.specfn("visible_text", ["segs"], "joined([segment.text for segment in segs if not segment.is_control])")
    R.contract(
        "rich.style", "Style.render", serves=["C15", "C03"],
        params={"self": "Style", "text": "str", "color_system": "Optional[int]", "legacy_windows": "bool"}, returns="str",
        ensures=["implies(len(text) == 0 or color_system is None, seq_eq(result, text))"],
        trusted="Style.render: only the pass-through cases are stated (empty text / no colour system give the text verbatim); the SGR framing is covered by the bounded C03 oracle",
        pure=True,
    )
    R.contract(
        "rich.console", "Console.export_text", serves=["C15"],
        params={"self": "ConsoleR", "clear": "bool", "styles": "bool"}, returns="str",
        requires=["self.record"],
        modifies=["self._record_buffer"],
        ensures=[
            # plain export: exactly the visible (non-control) text that was recorded, in order
            "implies(not styles, seq_eq(result, visible_text(old(self._record_buffer))))",
            # exporting with clear empties the record, without clear leaves it unchanged
            "implies(clear, len(self._record_buffer) == 0)",
            "implies(not clear, len(self._record_buffer) == len(old(self._record_buffer)) and all(self._record_buffer[i] == old(self._record_buffer)[i] for i in range(len(self._record_buffer))))",
        ],
        native=False,
    )
