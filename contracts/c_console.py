"""Contracts for rich.console recording / export (C15) and buffer flushing (C11/C15)."""


def register(R):
    R.record("ConsoleR", [("record", "bool"), ("_record_buffer", "list[Segment]"), ("_record_buffer_lock", "opaque:RLock")],
             pyclass="rich.console.Console", mutable=True)
    # the visible text of a record: texts of the non-control segments, in order, concatenated
    R.specfn("visible_text", ["segs"], "joined([segment.text for segment in segs if not segment.is_control])")
    R.contract(
        "rich.style", "Style.render", serves=["C15", "C03"],
        params={"self": "Style", "text": "str", "color_system": "Optional[int]", "legacy_windows": "bool"}, returns="str",
        ensures=["implies(len(text) == 0 or color_system is None, seq_eq(result, text))"],
        trusted="Style.render: only the pass-through cases are stated (empty text / no colour system give the text verbatim); the SGR framing is covered by the bounded C03 oracle",
        pure=True,
    )
    R.contract(
        "rich.console", "Console.export_text", serves=["C15"],
        params={"self": "ConsoleR", "clear": "bool", "styles": "bool"}, returns="str",
        requires=["self.record"],
        modifies=["self._record_buffer"],
        ensures=[
            # plain export: exactly the visible (non-control) text that was recorded, in order
            "implies(not styles, seq_eq(result, visible_text(old(self._record_buffer))))",
            # exporting with clear empties the record, without clear leaves it unchanged
            "implies(clear, len(self._record_buffer) == 0)",
            "implies(not clear, len(self._record_buffer) == len(old(self._record_buffer)) and all(self._record_buffer[i] == old(self._record_buffer)[i] for i in range(len(self._record_buffer))))",
        ],
        native=False,
    )


def register_render_lines(R):
    R.record("ConsoleOptions", [("max_width", "int"), ("min_width", "int")], pyclass="rich.console.ConsoleOptions")
    R.record("ConsoleRL", [("_dummy", "int")], pyclass="rich.console.Console", mutable=True)
    R.contract("rich.console", "Console.options", serves=["C01", "C08", "C13"], params={"self": "ConsoleRL"}, returns="ConsoleOptions",
               ensures=["result.max_width >= 0"],
               trusted="the console's default options: some ConsoleOptions with a non-negative width (terminal size)")
    R.contract("rich.console", "Console.render", serves=["C01", "C08", "C13"],
               params={"self": "ConsoleRL", "renderable": "opaque:Renderable", "options": "ConsoleOptions"}, returns="list[Segment]",
               raises={"BaseException": "*"},
               trusted="ANY list of segments may come out of rendering an arbitrary renderable (havoc: nothing is assumed about widths, newlines or styles); it may raise")
    R.contract("rich.segment", "Segment.apply_style", serves=["C01", "C08", "C13"],
               params={"segments": "list[Segment]", "style": "Optional[Style]", "post_style": "Optional[Style]"}, returns="list[Segment]",
               trusted="returns some list of segments (havoc: the width statement below does not depend on what apply_style does)")
    # Rectangles by construction: whatever the child renders, render_lines returns lines of exactly
    # max_width cells when padding and at most max_width otherwise (DESIGN section 8, shared spine)
    R.contract(
        "rich.console", "Console.render_lines", serves=["C01", "C08", "C13"],
        params={"self": "ConsoleRL", "renderable": "opaque:Renderable", "options": "Optional[ConsoleOptions]", "style": "Optional[Style]", "pad": "bool"},
        returns="list[list[Segment]]",
        requires=["implies(options is not None, options.max_width >= 0)", "width_of(10) == 0"],
        raises={"BaseException": "*"},
        ensures=[
            "implies(options is not None, all(line_cells(result[k]) <= options.max_width for k in range(len(result))))",
            "implies(options is not None and pad, all(line_cells(result[k]) == options.max_width for k in range(len(result))))",
        ],
        native=False,
    )


_c0 = register


def register(R):
    _c0(R)
    register_render_lines(R)


def register_capture(R):
    # Capture: whatever the block produced - including the empty string - is what get() returns; only a capture that has
    # not been closed yet has no result
    R.record("CaptureR", [("_console", "opaque:Console"), ("_result", "Optional[str]")], pyclass="rich.console.Capture", mutable=True)
    R.contract(
        "rich.console", "Capture.get", serves=["C15"], params={"self": "CaptureR"}, returns="str", modifies=[],
        raises={"CaptureError": "self._result is None"},
        ensures=["self._result is not None", "seq_eq(result, self._result)"],
        native=False,
    )


_c1 = register


def register(R):
    _c1(R)
    register_capture(R)
