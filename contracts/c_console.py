"""Contracts for rich.console recording / export (C15) and buffer flushing (C11/C15)."""


def register(R):
    R.record("ConsoleR", [("record", "bool"), ("_record_buffer", "list[Segment]"), ("_record_buffer_lock", "opaque:RLock")],
             pyclass="rich.console.Console", mutable=True)
    # the visible text of a record: texts of the non-control segments, in order, concatenated
    R.specfn("visible_text", ["segs"], "joined([segment.text for segment in segs if not segment.is_control])")
    R.ufun("sgr_of", "str")
    R.contract(
        "rich.style", "Style._make_ansi_codes", serves=["C15", "C03"],
        params={"self": "Style", "color_system": "int"}, returns="str", pure=True,
        ensures=["seq_eq(result, sgr_of(self, color_system))"],
        trusted="the SGR parameter string of a style is a function of its colours, its effective attribute bits and the colour system "
                "(sgr_of, uninterpreted): which parameters it contains is covered by Color.get_ansi_codes / Color.downgrade (proved) "
                "and by the bounded C03 oracle; the write to the _ansi cache is not modelled here (see wf_style / ansi_cache_ok)",
    )
    # Style.render: the text verbatim when there is nothing to say (empty text, colour disabled: no escape sequence at all);
    # otherwise ESC[<sgr>m text ESC[0m - the styled run is closed by a reset, so no style leaks onto what follows - wrapped in an
    # OSC 8 open/close pair only when the style carries a link (and the terminal is not a legacy Windows console)
    R.contract(
        "rich.style", "Style.render", serves=["C15", "C03"],
        params={"self": "Style", "text": "str", "color_system": "Optional[int]", "legacy_windows": "bool"}, returns="str",
        ensures=[
            "implies(len(text) == 0 or color_system is None, seq_eq(result, text))",
            "len(result) >= len(text)",
            "implies(len(text) > 0 and color_system is not None and (not self._link or legacy_windows) and len(sgr_of(self, color_system)) == 0, seq_eq(result, text))",
            "implies(len(text) > 0 and color_system is not None and (not self._link or legacy_windows) and len(sgr_of(self, color_system)) > 0,"
            " seq_eq(result, '\\x1b[' + sgr_of(self, color_system) + 'm' + text + '\\x1b[0m'))",
            # with a link: OSC 8 ; id=... ; uri ST  <styled run>  OSC 8 ; ; ST
            "implies(len(text) > 0 and color_system is not None and (not not self._link) and not legacy_windows, len(result) >= len(text) + 14"
            " and result[0] == '\\x1b' and result[1] == ']' and result[2] == '8' and result[3] == ';'"
            " and result[len(result) - 1] == '\\\\' and result[len(result) - 2] == '\\x1b')",
        ],
        pure=True, native=False,
    )
    R.contract(
        "rich.console", "Console.export_text", serves=["C15"],
        params={"self": "ConsoleR", "clear": "bool", "styles": "bool"}, returns="str",
        requires=["self.record"],
        modifies=["self._record_buffer"],
        ensures=[
            # plain export: exactly the visible (non-control) text that was recorded, in order
            "implies(not styles, seq_eq(result, visible_text(old(self._record_buffer))))",
            # exporting with clear empties the record, without clear leaves it unchanged
            "implies(clear, len(self._record_buffer) == 0)",
            "implies(not clear, len(self._record_buffer) == len(old(self._record_buffer)) and all(self._record_buffer[i] == old(self._record_buffer)[i] for i in range(len(self._record_buffer))))",
        ],
        native=False,
    )


def register_render_lines(R):
    R.record("ConsoleOptions", [("max_width", "int"), ("min_width", "int")], pyclass="rich.console.ConsoleOptions")
    R.record("ConsoleRL", [("_dummy", "int")], pyclass="rich.console.Console", mutable=True)
    R.contract("rich.console", "Console.options", serves=["C01", "C08", "C13"], params={"self": "ConsoleRL"}, returns="ConsoleOptions",
               ensures=["result.max_width >= 0"],
               trusted="the console's default options: some ConsoleOptions with a non-negative width (terminal size)")
    R.contract("rich.console", "Console.render", serves=["C01", "C08", "C13"],
               params={"self": "ConsoleRL", "renderable": "opaque:Renderable", "options": "ConsoleOptions"}, returns="list[Segment]",
               raises={"BaseException": "*"},
               trusted="ANY list of segments may come out of rendering an arbitrary renderable (havoc: nothing is assumed about widths, newlines or styles); it may raise")
    R.contract("rich.segment", "Segment.apply_style", serves=["C01", "C08", "C13"],
               params={"segments": "list[Segment]", "style": "Optional[Style]", "post_style": "Optional[Style]"}, returns="list[Segment]",
               trusted="returns some list of segments (havoc: the width statement below does not depend on what apply_style does)")
    # Rectangles by construction: whatever the child renders, render_lines returns lines of exactly
    # max_width cells when padding and at most max_width otherwise (DESIGN section 8, shared spine)
    R.contract(
        "rich.console", "Console.render_lines", serves=["C01", "C08", "C13"],
        params={"self": "ConsoleRL", "renderable": "opaque:Renderable", "options": "Optional[ConsoleOptions]", "style": "Optional[Style]", "pad": "bool"},
        returns="list[list[Segment]]",
        requires=["implies(options is not None, options.max_width >= 0)", "width_of(10) == 0"],
        raises={"BaseException": "*"},
        ensures=[
            "implies(options is not None, all(line_cells(result[k]) <= options.max_width for k in range(len(result))))",
            "implies(options is not None and pad, all(line_cells(result[k]) == options.max_width for k in range(len(result))))",
        ],
        native=False,
    )


_c0 = register


def register(R):
    _c0(R)
    register_render_lines(R)


def register_capture(R):
    # Capture: whatever the block produced - including the empty string - is what get() returns; only a capture that has
    # not been closed yet has no result
    R.record("CaptureR", [("_console", "opaque:Console"), ("_result", "Optional[str]")], pyclass="rich.console.Capture", mutable=True)
    R.contract(
        "rich.console", "Capture.get", serves=["C15"], params={"self": "CaptureR"}, returns="str", modifies=[],
        raises={"CaptureError": "self._result is None"},
        ensures=["self._result is not None", "seq_eq(result, self._result)"],
        native=False,
    )


_c1 = register


def register(R):
    _c1(R)
    register_capture(R)
