"""Contracts for rich.file_proxy.FileProxy (C19): the line bookkeeping of write() / flush().

What is printed goes through AnsiDecoder.decode_line, Text.join and Console.print (regex based decoder: bounded, c19); the
contracts below pin down WHICH characters are handed on as complete lines and which stay pending, for every input."""
from vf.pyvc.contracts import Loop


def register(R):
    R.record("FileProxyR", [("__console", "ConsoleL"), ("__file", "opaque:IO"), ("__buffer", "list[str]"), ("__ansi_decoder", "opaque:Decoder")],
             pyclass="rich.file_proxy.FileProxy", mutable=True)
    R.opaque_classes[("rich.text", "Text")] = "TextObj"
    R.contract("<opaque>", "Decoder.decode_line", serves=["C19"], params={"self": "opaque:Decoder", "line": "str"}, returns="opaque:TextObj",
               trusted="AnsiDecoder.decode_line accepts any string and returns a Text (regex based; bounded in c19 / c14)")
    R.contract("<opaque>", "TextObj.join", serves=["C19"], params={"self": "opaque:TextObj", "lines": "list[opaque:TextObj]"}, returns="opaque:TextObj",
               trusted="Text.join returns a Text")
    # no pending piece contains a new line (representation invariant of the proxy's buffer)
    R.specfn("nl_free", ["s"], "all(s[j] != '\\n' for j in range(len(s)))")
    R.specfn("pending_ok", ["b"], "all(nl_free(b[k]) for k in range(len(b)))")
    R.contract(
        "rich.file_proxy", "FileProxy.write", serves=["C19"],
        params={"self": "FileProxyR", "text": "str"}, returns="int",
        requires=["pending_ok(self.__buffer)"],
        modifies=["self.__buffer", "self.__console.buffer_depth", "self.__console.unwritten"],
        raises={"BaseException": "*"},
        ensures=[
            "pending_ok(self.__buffer)",
            # text without a new line: it is appended to what is pending, nothing else changes
            "implies(len(text) > 0 and nl_free(text), len(self.__buffer) == len(old(self.__buffer)) + 1 and seq_eq(self.__buffer[len(self.__buffer) - 1], text))",
            "implies(len(text) == 0, len(self.__buffer) == len(old(self.__buffer)))",
            # text with a new line: what stays pending is exactly what follows the last new line
            "implies(not nl_free(text), len(self.__buffer) <= 1 and joinlen(self.__buffer) < len(text) and text[len(text) - joinlen(self.__buffer) - 1] == '\\n')",
            "implies(not nl_free(text) and len(self.__buffer) == 1, all(self.__buffer[0][j] == text[len(text) - len(self.__buffer[0]) + j] for j in range(len(self.__buffer[0]))))",
        ],
        loops={0: Loop(header="while text",
                       invariant=[
                           "pending_ok(buffer)",
                           "0 <= len(text) and len(text) <= len(old(text))",
                           "all(text[j] == old(text)[len(old(text)) - len(text) + j] for j in range(len(text)))",
                           "implies(len(lines) == 0, len(text) == len(old(text)) and len(buffer) == len(old(self.__buffer)) and joinlen(buffer) == joinlen(old(self.__buffer)))",
                           "implies(len(lines) > 0, len(buffer) == 0 and len(text) < len(old(text)) and old(text)[len(old(text)) - len(text) - 1] == '\\n')",
                           "all(nl_free(lines[k]) for k in range(1, len(lines)))",
                           # nothing is lost or duplicated: the characters of the complete lines, one new line each, and the rest
                           # still to be split add up to what was pending plus what was written
                           "implies(len(lines) > 0, joinlen(lines) + len(lines) + len(text) == joinlen(old(self.__buffer)) + len(old(text)))",
                       ],
                       decreases="len(text)")},
        native=False,
    )


def register_flush(R):
    # flush(): the pending partial line is handed to the console (once) and nothing stays pending - also when printing raises
    R.contract(
        "rich.file_proxy", "FileProxy.flush", serves=["C19"],
        params={"self": "FileProxyR"},
        requires=["pending_ok(self.__buffer)"],
        modifies=["self.__buffer", "self.__console.unwritten"],
        raises={"BaseException": "*"},
        ensures=["len(self.__buffer) == 0"],
        ensures_raise={"BaseException": ["len(self.__buffer) == 0"]},
        native=False,
    )


_f0 = register


def register(R):
    _f0(R)
    register_flush(R)
