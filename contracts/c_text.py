"""Contracts for rich.text.Text mutators (C05): plain-string equation, length, span transport."""
from vf.pyvc.contracts import Loop


def register(R):
    R.record("Span", [("start", "int"), ("end", "int"), ("style", "opaque:StyleLike")], pyclass="rich.text.Span")
    R.record("TextM", [("_text", "list[str]"), ("_spans", "list[Span]"), ("_length", "int"), ("style", "opaque:StyleLike"),
                       ("overflow", "Optional[ostr]")],
             pyclass="rich.text.Text", mutable=True)
    # the characters of a Text: its pieces joined
    R.specfn("plain_of", ["t"], "joined(t._text)")
    # representation invariant: the cached length is the length of the characters
    R.specfn("ri_text", ["t"], "t._length == len(plain_of(t)) and len(t._text) >= 1")
    R.contract("rich.text", "Text.plain", serves=["C05"], inline=True)
    R.contract("rich.text", "Text.plain.setter", serves=["C05"], inline=True)
    R.contract("rich.text", "Text.__len__", serves=["C05"], inline=True)
    R.contract(
        "rich.text", "Text._trim_spans", serves=["C05"], params={"self": "TextM"},
        requires=["ri_text(self)"], modifies=["self._spans", "self._text"],
        ensures=[
            "seq_eq(plain_of(self), old(plain_of(self))) and self._length == old(self._length)",
            "len(self._spans) <= len(old(self._spans))",
            "all(self._spans[i].end <= self._length and self._spans[i].start < self._length for i in range(len(self._spans)))",
        ],
        native=False,
    )
    for name in ("pad_left", "pad_right"):
        left = name == "pad_left"
        R.contract(
            "rich.text", f"Text.{name}", serves=["C05"],
            params={"self": "TextM", "count": "int", "character": "str"},
            requires=["ri_text(self)", "count >= 0", "len(character) == 1"],
            modifies=["self._text", "self._spans", "self._length"],
            ensures=[
                "ri_text(self)",
                ("seq_eq(plain_of(self), character * count + old(plain_of(self)))" if left
                 else "seq_eq(plain_of(self), old(plain_of(self)) + character * count)"),
                "cells(plain_of(self)) == cells(old(plain_of(self))) + count * width_of(char_at(character, 0))",
                "len(self._spans) == len(old(self._spans))",
                ("all(self._spans[i].start == old(self._spans)[i].start + count and self._spans[i].end == old(self._spans)[i].end + count and self._spans[i].style == old(self._spans)[i].style for i in range(len(self._spans)))"
                 if left else "all(self._spans[i] == old(self._spans)[i] for i in range(len(self._spans)))"),
            ],
            native=False,
        )


def register_more(R):
    # the effective overflow method is "ignore": the argument if given (truthy), else the text's own, else "fold"
    R.specfn("eff_ignore", ["ov", "own"], "(ov == 'ignore') if ov else ((own == 'ignore') if own else False)")
    MOD = ["self._text", "self._spans", "self._length"]
    R.contract(
        "rich.text", "Text.pad", serves=["C05"],
        params={"self": "TextM", "count": "int", "character": "str"},
        requires=["ri_text(self)", "count >= 0", "len(character) == 1"], modifies=MOD,
        ensures=[
            "ri_text(self)",
            "seq_eq(plain_of(self), character * count + old(plain_of(self)) + character * count)",
            "cells(plain_of(self)) == cells(old(plain_of(self))) + 2 * count * width_of(char_at(character, 0))",
            "len(self._spans) == len(old(self._spans))",
            "all(self._spans[i].start == old(self._spans)[i].start + count and self._spans[i].end == old(self._spans)[i].end + count and self._spans[i].style == old(self._spans)[i].style for i in range(len(self._spans)))",
        ],
        native=False,
    )
    R.contract(
        "rich.text", "Text.right_crop", serves=["C05"],
        params={"self": "TextM", "amount": "int"},
        requires=["ri_text(self)"], modifies=MOD,
        ensures=[
            "ri_text(self)",
            # the characters are those of an ordinary string cropped by the clamped amount
            "seq_eq(plain_of(self), old(plain_of(self))[:len(old(plain_of(self))) - min(max(amount, 0), len(old(plain_of(self))))])",
            "implies(min(amount, old(self._length)) > 0, all(self._spans[i].end <= self._length and self._spans[i].start < self._length for i in range(len(self._spans))))",
            "implies(min(amount, old(self._length)) <= 0, len(self._spans) == len(old(self._spans)) and all(self._spans[i] == old(self._spans)[i] for i in range(len(self._spans))))",
            "len(self._spans) <= len(old(self._spans))",
        ],
        native=False,
    )
    R.contract(
        "rich.text", "Text.set_length", serves=["C05"],
        params={"self": "TextM", "new_length": "int"},
        requires=["ri_text(self)"], modifies=MOD,
        ensures=[
            "ri_text(self)",
            "self._length == max(new_length, 0)",
            "implies(new_length >= old(self._length), seq_eq(plain_of(self), old(plain_of(self)) + ' ' * (new_length - old(self._length))))",
            "implies(new_length < old(self._length), seq_eq(plain_of(self), old(plain_of(self))[:max(new_length, 0)]))",
        ],
        native=False,
    )
    R.contract(
        "rich.text", "Text.stylize", serves=["C05"],
        params={"self": "TextM", "style": "opaque:StyleLike", "start": "int", "end": "Optional[int]"},
        requires=["ri_text(self)"], modifies=["self._spans"],
        ensures=[
            # operations that only add styling never change the characters
            "seq_eq(plain_of(self), old(plain_of(self))) and self._length == old(self._length)",
            "len(self._spans) == len(old(self._spans)) or len(self._spans) == len(old(self._spans)) + 1",
            "all(self._spans[i] == old(self._spans)[i] for i in range(len(old(self._spans))))",
            "implies(len(self._spans) == len(old(self._spans)) + 1, 0 <= self._spans[len(self._spans) - 1].start and self._spans[len(self._spans) - 1].start < self._spans[len(self._spans) - 1].end and self._spans[len(self._spans) - 1].end <= self._length and self._spans[len(self._spans) - 1].style == style)",
        ],
        native=False,
    )
    R.contract(
        "rich.text", "Text.truncate", serves=["C05", "C02"],
        params={"self": "TextM", "max_width": "int", "overflow": "Optional[ostr]", "pad": "bool"},
        requires=["ri_text(self)", "max_width >= 1", "width_of(8230) == 1"], modifies=MOD,
        ensures=[
            "ri_text(self)",
            "implies(not eff_ignore(overflow, old(self.overflow)), cells(plain_of(self)) <= max_width)",
            "implies(not eff_ignore(overflow, old(self.overflow)) and pad, cells(plain_of(self)) == max_width)",
            "implies(cells(old(plain_of(self))) <= max_width and not pad, seq_eq(plain_of(self), old(plain_of(self))))",
        ],
        native=False,
    )


_t0 = register


def register(R):
    _t0(R)
    register_more(R)


def register_align(R):
    R.contract(
        "rich.text", "Text.align", serves=["C05", "C08"],
        params={"self": "TextM", "align": "ostr", "width": "int", "character": "str"},
        requires=["ri_text(self)", "width >= 1", "len(character) == 1", "width_of(char_at(character, 0)) == 1", "width_of(8230) == 1",
                  "not eff_ignore(None, self.overflow)"],
        modifies=["self._text", "self._spans", "self._length"],
        ensures=["ri_text(self)", "cells(plain_of(self)) == width"],
        native=False,
        notes="exact-width contract used by Panel titles and Rule",
    )


_t1 = register


def register(R):
    _t1(R)
    register_align(R)
