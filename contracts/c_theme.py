"""Contracts for rich.theme.ThemeStack and the console's theme context (C20)."""


def register(R):
    R.record("Theme", [("styles", "dict[ostr,Style]")], pyclass="rich.theme.Theme", mutable=True)
    # `get` is the bound method `_entries[-1].get`; it is represented by the dict it is bound to, which
    # makes the representation invariant "self.get looks up the top entry" a plain equation
    R.record("ThemeStack", [("_entries", "list[dict[ostr,Style]]"), ("get", "dict[ostr,Style]")],
             pyclass="rich.theme.ThemeStack", mutable=True)
    R.specfn("ri_stack", ["s"], "len(s._entries) >= 1 and s.get == s._entries[len(s._entries) - 1]")
    R.specfn("lookup", ["d", "k"], "d.get(k)")
    PUSH = [
        "ri_stack({S})",
        "len({S}._entries) == len(old({S}._entries)) + 1",
        "all({S}._entries[i] == old({S}._entries)[i] for i in range(len(old({S}._entries))))",
        # the new top: the pushed theme's entry where it defines the name, else (when inheriting) the old top's
        "implies({T}.styles.get(k) is not None, {S}.get.get(k) == {T}.styles.get(k))",
        "implies({T}.styles.get(k) is None and {I}, {S}.get.get(k) == old({S}.get).get(k))",
        "implies({T}.styles.get(k) is None and not {I}, {S}.get.get(k) is None)",
    ]
    POP = [
        "ri_stack({S})",
        "len({S}._entries) == len(old({S}._entries)) - 1",
        "all({S}._entries[i] == old({S}._entries)[i] for i in range(len({S}._entries)))",
    ]
    fmt = lambda cl, **kw: [c.format(**kw) for c in cl]
    R.record("ConsoleT", [("_theme_stack", "ThemeStack")], pyclass="rich.console.Console", mutable=True)
    R.record("ThemeContext", [("console", "ConsoleT"), ("theme", "Theme"), ("inherit", "bool")], pyclass="rich.console.ThemeContext", mutable=True)
    R.contract(
        "rich.console", "Console.push_theme", serves=["C20"],
        params={"self": "ConsoleT", "theme": "Theme", "inherit": "bool"},
        requires=["ri_stack(self._theme_stack)"], modifies=["self._theme_stack"], ghost={"k": "ostr"},
        ensures=fmt(PUSH, S="self._theme_stack", T="theme", I="inherit"), native=False,
    )
    R.contract(
        "rich.console", "Console.pop_theme", serves=["C20"],
        params={"self": "ConsoleT"},
        requires=["ri_stack(self._theme_stack)"], modifies=["self._theme_stack"],
        raises={"ThemeStackError": "len(self._theme_stack._entries) == 1"},
        ensures=fmt(POP, S="self._theme_stack"), native=False,
    )
    R.contract(
        "rich.console", "ThemeContext.__enter__", serves=["C20"],
        params={"self": "ThemeContext"}, returns="ThemeContext",
        requires=["ri_stack(self.console._theme_stack)"], modifies=["self.console"], ghost={"k": "ostr"},
        ensures=fmt(PUSH, S="self.console._theme_stack", T="self.theme", I="self.inherit"), native=False,
        notes="the context's own `inherit` flag must reach the push",
    )
    R.contract(
        "rich.console", "ThemeContext.__exit__", serves=["C20"],
        params={"self": "ThemeContext", "exc_type": "opaque:Any", "exc_val": "opaque:Any", "exc_tb": "opaque:Any"},
        requires=["ri_stack(self.console._theme_stack)", "len(self.console._theme_stack._entries) >= 2"],
        modifies=["self.console"],
        ensures=fmt(POP, S="self.console._theme_stack"), native=False,
        notes="runs on normal and exceptional exit of the with-block alike (Python's with-statement protocol); returns None so the exception propagates",
    )
    R.lemma(
        "pop_after_push_restores", serves=["C20"],
        vars={"e0": "list[dict[ostr,Style]]", "e1": "list[dict[ostr,Style]]", "e2": "list[dict[ostr,Style]]"},
        assumes=["len(e0) >= 1",
                 "len(e1) == len(e0) + 1 and all(e1[i] == e0[i] for i in range(len(e0)))",   # push postcondition
                 "len(e2) == len(e1) - 1 and all(e2[i] == e1[i] for i in range(len(e2)))"],   # pop postcondition
        claims=["len(e2) == len(e0)", "all(e2[i] == e0[i] for i in range(len(e0)))", "e2[len(e2) - 1] == e0[len(e0) - 1]"],
        notes="pop after push restores every entry, hence every lookup; by induction over well-nested histories the base entry is never removed",
    )
    R.contract(
        "rich.theme", "ThemeStack.push_theme", serves=["C20"],
        params={"self": "ThemeStack", "theme": "Theme", "inherit": "bool"},
        requires=["ri_stack(self)"],
        modifies=["self._entries", "self.get"],
        ghost={"k": "ostr"},
        ensures=[
            "ri_stack(self)",
            "len(self._entries) == len(old(self._entries)) + 1",
            "all(self._entries[i] == old(self._entries)[i] for i in range(len(old(self._entries))))",
            # the new top: the pushed theme's entry where it defines the name, else (when inheriting) the old top's
            "implies(theme.styles.get(k) is not None, self.get.get(k) == theme.styles.get(k))",
            "implies(theme.styles.get(k) is None and inherit, self.get.get(k) == old(self.get).get(k))",
            "implies(theme.styles.get(k) is None and not inherit, self.get.get(k) is None)",
        ],
        native=False,
    )
    R.contract(
        "rich.theme", "ThemeStack.pop_theme", serves=["C20"],
        params={"self": "ThemeStack"},
        requires=["ri_stack(self)"],
        modifies=["self._entries", "self.get"],
        raises={"ThemeStackError": "len(self._entries) == 1"},
        ensures_raise={"ThemeStackError": ["len(self._entries) == 1", "self._entries[0] == old(self._entries)[0]", "ri_stack(self)"]},
        ensures=[
            "ri_stack(self)",
            "len(self._entries) == len(old(self._entries)) - 1",
            "all(self._entries[i] == old(self._entries)[i] for i in range(len(self._entries)))",
        ],
        native=False,
    )
    # ---- name resolution: the entry of the top map (which push_theme's contract makes "most recent theme that defines
    # it, else inherited"), else the name parsed as a definition
    R.ufun("parsed_style", "Style")
    R.contract("rich.style", "Style.link", serves=["C20"], inline=True)
    R.contract(
        "rich.style", "Style.parse", serves=["C20"], bv=True,
        params={"style_definition": "ostr"}, returns="Style", pure=True,
        raises={"StyleSyntaxError": "*"},
        ensures=["result == parsed_style(style_definition)", "wf_style(result)"],
        trusted="Style.parse: tokenising a definition string is outside the encoder; it is represented by an uninterpreted "
                "function of the definition (deterministic, no other input) that yields a well-formed Style or raises StyleSyntaxError; "
                "its behaviour is what vf/rtc/props/c06.py checks (bounded)",
    )
    R.contract(
        "rich.console", "Console.get_style", serves=["C20"], bv=True,
        params={"self": "ConsoleT", "name": "ostr", "default": "Optional[ostr]"}, returns="Style",
        requires=["ri_stack(self._theme_stack)",
                  "implies(self._theme_stack.get.get(name) is not None, wf_style(self._theme_stack.get.get(name)))",
                  "implies(default is not None and self._theme_stack.get.get(default) is not None, wf_style(self._theme_stack.get.get(default)))"],
        raises={"MissingStyle": "*"},
        ensures=[
            "implies(self._theme_stack.get.get(name) is not None, style_eq(result, self._theme_stack.get.get(name)))",
            "implies(self._theme_stack.get.get(name) is None and default is None, style_eq(result, parsed_style(name)))",
        ],
        native=False,
        notes="string names only (a Style argument is returned as is by the first two lines); the fallback to `default` is covered only by 'may raise MissingStyle'",
    )
