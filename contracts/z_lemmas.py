"""The lemma schemas the engine instantiates (sums, cell widths) are proved by induction; the two proof steps of each are
machine-checked on every run (vf/pyvc/lemmalib.py) and registered here as a data obligation of every property whose
proofs use sums or cell widths."""


def register(R):
    def induction_steps():
        import multiprocessing as mp
        from vf.pyvc.lemmalib import check_all
        # in a child process: the main process stays free of z3 activity (vf/pyvc/driver.py relies on that)
        with mp.get_context("fork").Pool(1) as pool:
            rows = pool.apply(check_all)
        bad = [f"{name}: base={b} step={s_} non-vacuous={nv}" for name, b, s_, nv in rows if not (b and s_ and nv)]
        return (not bad, "; ".join(bad) or f"base case and induction step of all {len(rows)} lemma schemas discharged by z3; each step needs its unfolding equation", 3 * len(rows))

    R.data_obligation("lemmas.induction_steps", ["C01", "C02", "C05", "C07", "C08", "C09", "C12", "C13"], induction_steps,
                      "the lemma instances added to VCs (non-negative / non-positive sums, sum and cell-width congruence, monotone cell prefix sums) follow by induction from the unfolding axioms; only the induction principle over the naturals is trusted")
