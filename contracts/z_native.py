"""Native value factories and generators so that the proved contracts are ALSO evaluated by CPython on the
real functions (bounded cross-check of contracts and encoder; concrete replay inputs for failed obligations).
Loaded last (file name sorts after the c_*.py files)."""
import itertools


def _colors(rng):
    from rich.color import Color, ColorType
    from rich.color_triplet import ColorTriplet
    out = [Color.default()]
    out += [Color.from_ansi(n) for n in (0, 1, 7, 8, 15, 16, 17, 100, 231, 232, 255)]
    out += [Color("w", ColorType.WINDOWS, number=n) for n in (0, 7, 8, 15)]
    vals = (0, 1, 5, 95, 127, 128, 200, 250, 254, 255)
    out += [Color.from_triplet(ColorTriplet(v, v, v)) for v in vals]
    out += [Color.from_triplet(ColorTriplet(r, g, b)) for r, g, b in itertools.islice(itertools.product((0, 95, 255), repeat=3), 27)]
    out += [Color.from_triplet(ColorTriplet(rng.randrange(256), rng.randrange(256), rng.randrange(256))) for _ in range(80)]
    out += [Color.parse(n) for n in ("red", "bright_blue", "#ff0000", "rgb(1,2,3)", "color(5)", "default")]
    return out


def _styles(rng):
    from rich.style import Style
    cols = [None, "red", "default", "color(100)", "#00ff7f"]
    out = [Style(), Style.null(), Style(link=""), Style(bold=True), Style(bold=False), Style(color="red"), Style(bgcolor="blue"),
           Style(link="http://a"), Style(bold=True, color="red", bgcolor="default", link="http://b"), Style.parse("not bold underline on #010203")]
    names = ["bold", "dim", "italic", "underline", "blink", "blink2", "reverse", "conceal", "strike", "underline2", "frame", "encircle", "overline"]
    for _ in range(60):
        kw = {n: rng.choice([None, None, True, False]) for n in names}
        out.append(Style(color=rng.choice(cols), bgcolor=rng.choice(cols), link=rng.choice([None, None, "http://x", ""]), **kw))
    out += [a + b for a, b in zip(out[3:20], out[10:27])]
    out += [s.copy() for s in out[3:8]] + [s.without_color for s in out[5:10]] + [s.update_link("http://u") for s in out[3:6]]
    return out


def _texts(rng):
    from rich.text import Span, Text
    out = []
    alpha = ["a", "b", " ", "你", "̀", "x", "\n"]
    for _ in range(120):
        s = "".join(rng.choice(alpha) for _ in range(rng.randint(0, 9)))
        t = Text(s, overflow=rng.choice([None, None, "fold", "crop", "ellipsis", "ignore"]))
        for _k in range(rng.randint(0, 3)):
            if rng.random() < 0.5:
                t.append("".join(rng.choice(alpha) for _ in range(rng.randint(0, 3))), rng.choice([None, "red", "bold"]))
        for _k in range(rng.randint(0, 3)):
            a = rng.randint(-2, len(t) + 2)
            t._spans.append(Span(a, a + rng.randint(-1, 5), rng.choice(["red", "bold", "on blue"])))
        out.append(t)
    out.append(Text(""))
    return out


def _segments(rng):
    from rich.segment import Segment
    from rich.style import Style
    st = [None, Style.parse("red"), Style.parse("bold on blue")]
    out = []
    for _ in range(40):
        out.append(Segment("".join(rng.choice(["a", " ", "你", "̀", "😽", "b"]) for _ in range(rng.randint(0, 5))), rng.choice(st), rng.random() < 0.15))
    return out


def register(R):
    from vf.rtc import specnative
    R.native_factories["Color"] = _colors
    R.native_factories["Style"] = _styles
    R.native_factories["TextM"] = _texts
    R.native_factories["Segment"] = _segments
    R.native_factories["ColorTriplet"] = lambda rng: [c.triplet for c in _colors(rng) if c.triplet is not None]
    R.native_factories["Palette"] = lambda rng: __import__("rich._palettes", fromlist=["x"]).__dict__ and [
        __import__("rich._palettes", fromlist=["x"]).STANDARD_PALETTE, __import__("rich._palettes", fromlist=["x"]).WINDOWS_PALETTE,
        __import__("rich._palettes", fromlist=["x"]).EIGHT_BIT_PALETTE]
    # names the spec expressions mention
    def late(name, mod):
        return lambda: getattr(__import__(mod, fromlist=["x"]), name)
    import rich._palettes as pal
    import rich.style as rstyle
    R.natives.update({"STANDARD_PALETTE": pal.STANDARD_PALETTE, "WINDOWS_PALETTE": pal.WINDOWS_PALETTE, "EIGHT_BIT_PALETTE": pal.EIGHT_BIT_PALETTE,
                      "NULL_STYLE": rstyle.NULL_STYLE,
                      "joined": lambda parts: "".join(parts), "joinlen": lambda parts: len("".join(parts)),
                      "joincells": lambda parts: specnative.cells("".join(parts)),
                      "line_cells": lambda line: sum(0 if s.is_control else specnative.cells(s.text) for s in line)})
    on = {
        ("rich.color", "Color.downgrade"): {"system": lambda rng: [1, 2, 3, 4]},
        ("rich.color", "Color.get_ansi_codes"): {},
        ("rich.palette", "Palette.match"): {"color": lambda rng: [(0, 0, 0), (255, 255, 255), (12, 200, 99), (0, 0, 102)] + [(rng.randrange(256), rng.randrange(256), rng.randrange(256)) for _ in range(150)]},
        ("rich.style", "Style.__add__"): {}, ("rich.style", "Style.copy"): {}, ("rich.style", "Style.without_color"): {},
        ("rich.style", "Style.update_link"): {"link": lambda rng: [None, "", "http://n"]},
        ("rich.style", "Style.__eq__"): {}, ("rich.style", "Style.__hash__"): {},
        ("rich.text", "Text.pad_left"): {"count": lambda rng: [0, 1, 2, 5], "character": lambda rng: [" ", "-", "你"]},
        ("rich.text", "Text.pad_right"): {"count": lambda rng: [0, 1, 2, 5], "character": lambda rng: [" ", "-", "你"]},
        ("rich.text", "Text.pad"): {"count": lambda rng: [0, 1, 3], "character": lambda rng: [" ", "*"]},
        ("rich.text", "Text.right_crop"): {"amount": lambda rng: [-1, 0, 1, 2, 3, 50]},
        ("rich.text", "Text.set_length"): {"new_length": lambda rng: [-1, 0, 1, 2, 4, 7, 12]},
        ("rich.text", "Text.stylize"): {"style": lambda rng: ["red", "bold"], "start": lambda rng: [-30, -3, -1, 0, 1, 4, 30], "end": lambda rng: [None, -30, -2, 0, 1, 3, 30]},
        ("rich.text", "Text.truncate"): {"max_width": lambda rng: [1, 2, 3, 5, 9], "overflow": lambda rng: [None, "fold", "crop", "ellipsis", "ignore"]},
        ("rich.text", "Text._trim_spans"): {},
        ("rich.segment", "Segment.cell_length"): {},
        ("rich.segment", "Segment.get_line_length"): {"line": lambda rng: [[rng.choice(_segments(rng)) for _ in range(rng.randint(0, 4))] for _ in range(60)]},
        ("rich.segment", "Segment.adjust_line_length"): {"line": lambda rng: [[s for s in (rng.choice(_segments(rng)) for _ in range(rng.randint(0, 4))) if "\n" not in s.text] for _ in range(80)],
                                                        "length": lambda rng: [0, 1, 2, 3, 5, 8], "style": lambda rng: [None] + _styles(rng)[3:5]},
    }
    for key, gens in on.items():
        c = R.contracts.get(key)
        if c is not None:
            c.native = True
            c.native_gen = dict(c.native_gen, **gens)
            c.native_budget = 1200
