"""Contracts for rich.measure (C09) and rich._ratio (C01/C07)."""
from vf.pyvc.contracts import Loop


def register(R):
    R.record("Measurement", [("minimum", "int"), ("maximum", "int")], pyclass="rich.measure.Measurement")

    R.contract(
        "rich.measure", "Measurement.normalize", serves=["C09"],
        params={"self": "Measurement"}, returns="Measurement", pure=True,
        ensures=[
            "0 <= result.minimum <= result.maximum",
            "implies(0 <= self.minimum <= self.maximum, result == self)",
            "implies(self.maximum >= 0, result.maximum == self.maximum)",
        ],
    )
    R.contract(
        "rich.measure", "Measurement.with_maximum", serves=["C09"],
        params={"self": "Measurement", "width": "int"}, returns="Measurement", pure=True,
        ensures=[
            "result.minimum == min(self.minimum, width)",
            "result.maximum == min(self.maximum, width)",
            "result.minimum <= width and result.maximum <= width",
            "implies(self.minimum <= self.maximum, result.minimum <= result.maximum)",
        ],
    )
    R.contract(
        "rich.measure", "Measurement.with_minimum", serves=["C09"],
        params={"self": "Measurement", "width": "int"}, returns="Measurement", pure=True,
        ensures=[
            "result.minimum == max(self.minimum, max(0, width))",
            "result.maximum == max(self.maximum, max(0, width))",
            "implies(self.minimum <= self.maximum, result.minimum <= result.maximum)",
        ],
    )
    R.contract(
        "rich.measure", "Measurement.clamp", serves=["C09"],
        params={"self": "Measurement", "min_width": "Optional[int]", "max_width": "Optional[int]"},
        returns="Measurement", pure=True,
        requires=["self.minimum <= self.maximum"],
        ensures=[
            "result.minimum <= result.maximum",
            "implies(max_width is not None, result.maximum <= max_width)",
            "implies(min_width is not None and max_width is None, result.minimum >= min_width)",
            "implies(min_width is None and max_width is None, result == self)",
            # a maximum only lowers, a minimum only raises (never above what was there unless the minimum asks for it)
            "implies(min_width is None, result.maximum <= self.maximum and result.minimum <= self.minimum)",
            "implies(max_width is None, result.maximum >= self.maximum and result.minimum >= self.minimum)",
            "implies(self.maximum >= 0 and (max_width is None or max_width >= 0), result.maximum >= 0)",
        ],
    )
    R.contract(
        "rich.measure", "Measurement.span", serves=["C09"], inline=True,
    )


def register_get(R):
    R.record("Console", [("width_", "int")], pyclass="rich.console.Console")
    # Console.width is a property over the terminal size: unconstrained int here
    R.contract("rich.console", "Console.width", serves=["C09"], params={"self": "Console"}, returns="int",
               trusted="terminal width: any int (no assumption made)", pure=True)
    R.contract("rich.console", "Console.render_str", serves=["C09"], params={"self": "Console", "text": "opaque:Renderable"},
               returns="opaque:Renderable", trusted="returns some renderable (no property assumed)", raises={"Exception": "*"})
    R.contract("rich.protocol", "is_renderable", serves=["C09"], params={"check_object": "opaque:Renderable"}, returns="bool",
               trusted="any bool (no property assumed)", pure=True)
    R.contract("<opaque>", "Renderable.__rich__", serves=["C09"], params={"self": "opaque:Renderable"}, returns="opaque:Renderable",
               trusted="user code: returns some object, may raise", raises={"Exception": "*"})
    R.contract("<opaque>", "Renderable.__rich_measure__.__call__", serves=["C09"],
               params={"self": "opaque:Renderable.__rich_measure__", "console": "Console", "max_width": "int"},
               returns="Measurement", trusted="ANY Measurement may be returned by a renderable's __rich_measure__ (havoc, no assumption); may raise",
               raises={"Exception": "*"})
    R.contract(
        "rich.measure", "Measurement.get", serves=["C09"],
        params={"cls": "none", "console": "Console", "renderable": "opaque:Renderable", "max_width": "Optional[int]"},
        returns="Measurement",
        raises={"Exception": "*"},
        ensures=[
            "0 <= result.minimum <= result.maximum",
            "implies(max_width is not None, result.maximum <= max(max_width, 0))",
            "implies(max_width is not None and max_width < 1, result.minimum == 0 and result.maximum == 0)",
        ],
    )


_reg0 = register


def register(R):
    _reg0(R)
    register_get(R)


def register_wrappers(R):
    """__rich_measure__ of the framing renderables (C09): whatever the child reports, the wrapper's own report is ordered and
    never exceeds the width it was offered (Measurement.get's contract is all that is known about the child)."""
    R.record("PaddingM", [("renderable", "opaque:Renderable"), ("top", "int"), ("right", "int"), ("bottom", "int"), ("left", "int")],
             pyclass="rich.padding.Padding")
    R.contract(
        "rich.padding", "Padding.__rich_measure__", serves=["C09"],
        params={"self": "PaddingM", "console": "Console", "max_width": "int"}, returns="Measurement",
        raises={"Exception": "*"},
        ensures=["result.minimum <= result.maximum", "result.maximum <= max_width",
                 # with room for the child, the report is the child's report plus the horizontal padding, clipped
                 "implies(max_width - (self.left + self.right) >= 1 and self.left + self.right >= 0, result.minimum >= min(self.left + self.right, max_width))"],
        native=False,
    )
    R.record("ConstrainM", [("renderable", "opaque:Renderable"), ("width", "Optional[int]")], pyclass="rich.constrain.Constrain")
    R.contract(
        "rich.constrain", "Constrain.__rich_measure__", serves=["C09"],
        params={"self": "ConstrainM", "console": "Console", "max_width": "int"}, returns="Measurement",
        raises={"Exception": "*"},
        ensures=["0 <= result.minimum <= result.maximum", "result.maximum <= max(max_width, 0)",
                 "implies(self.width is not None, result.maximum <= max(self.width, 0))"],
        native=False,
    )
    for mod, cls, rec in (("rich.align", "Align", "AlignM"), ("rich.align", "VerticalCenter", "VCenterM"), ("rich.styled", "Styled", "StyledM")):
        R.record(rec, [("renderable", "opaque:Renderable")], pyclass=f"{mod}.{cls}")
        R.contract(
            mod, f"{cls}.__rich_measure__", serves=["C09"],
            params={"self": rec, "console": "Console", "max_width": "int"}, returns="Measurement",
            raises={"Exception": "*"},
            ensures=["0 <= result.minimum <= result.maximum", "result.maximum <= max(max_width, 0)"],
            native=False,
        )


_reg1 = register


def register(R):
    _reg1(R)
    register_wrappers(R)
