"""Contracts for rich.cells / rich._cell_widths / rich._lru_cache (C13)."""
import z3

from vf.pyvc import seqs
from vf.pyvc.contracts import Loop
from vf.pyvc.sorts import INT, TUPLE, VRef


def _cell_table(ex):
    """CELL_WIDTHS as an abstract table: symbolic length and rows constrained only by facts that the data
    obligations (contracts/data_cells.py) establish exhaustively on the real table on every run:
    non-empty; start <= end; rows sorted and pairwise disjoint; and W(cp) *is* the table's width function."""
    from vf.pyvc.state import State, new_ref

    row = TUPLE(INT, INT, INT)
    dt = ex.U.z3sort(row)
    arr = z3.Const("CELL_WIDTHS.arr", z3.ArraySort(z3.IntSort(), dt))
    n = z3.Int("CELL_WIDTHS.len")
    start = lambda r: dt.accessor(0, 0)(arr[r])
    end = lambda r: dt.accessor(0, 1)(arr[r])
    width = lambda r: dt.accessor(0, 2)(arr[r])
    r, q, cp = z3.Int("r!t"), z3.Int("q!t"), z3.Int("cp!t")
    G = ex.global_facts
    G.append(n >= 1)
    G.append(z3.ForAll([r], z3.Implies(z3.And(0 <= r, r < n), start(r) <= end(r)), patterns=[arr[r]]))
    G.append(z3.ForAll([r, q], z3.Implies(z3.And(0 <= r, r < q, q < n), end(r) < start(q)), patterns=[z3.MultiPattern(arr[r], arr[q])]))
    # W is defined by the table (row containing cp, -1 normalised to 0; 1 when no row contains cp)
    G.append(z3.ForAll([cp, r], z3.Implies(z3.And(0 <= r, r < n, start(r) <= cp, cp <= end(r)),
                                           seqs.W(cp) == z3.If(width(r) == -1, 0, width(r))),
                       patterns=[z3.MultiPattern(seqs.W(cp), arr[r])]))
    G.append(z3.ForAll([cp], z3.Implies(z3.ForAll([r], z3.Implies(z3.And(0 <= r, r < n), z3.Or(cp < start(r), cp > end(r)))),
                                        seqs.W(cp) == 1), patterns=[seqs.W(cp)]))
    vs = seqs.view(arr, z3.IntVal(0), n, row)
    return ("table", vs)


def register(R):
    def table_value(ex):
        tag, vs = _cell_table(ex)
        return ex.box_list_global(vs)

    R.const_overrides[("rich._cell_widths", "CELL_WIDTHS")] = table_value

    def codepoints(rng):
        from rich._cell_widths import CELL_WIDTHS
        out = [0, 31, 32, 126, 127, 159, 160, 0x10FFFF]
        for s_, e_, _w in rng.sample(CELL_WIDTHS, 60) + CELL_WIDTHS[:3] + CELL_WIDTHS[-3:]:
            out += [s_ - 1, s_, e_, e_ + 1]
        out += [rng.randrange(0x110000) for _ in range(200)]
        return [c for c in out if 0 <= c <= 0x10FFFF]

    R.contract(
        "rich.cells", "_get_codepoint_cell_size", serves=["C13"],
        params={"codepoint": "int"}, returns="int", pure=True,
        native_gen={"codepoint": codepoints},
        ensures=["result == width_of(codepoint)", "0 <= result <= 2"],
        loops={
            0: Loop(
                header="while True",
                invariant=[
                    "0 <= lower_bound and lower_bound <= upper_bound and upper_bound < len(_table)",
                    "index == (lower_bound + upper_bound) // 2",
                    "all(_table[r][1] < codepoint for r in range(lower_bound))",
                    "all(_table[r][0] > codepoint for r in range(upper_bound + 1, len(_table)))",
                ],
                decreases="upper_bound - lower_bound",
            )
        },
    )
    R.contract(
        "rich.cells", "get_character_cell_size", serves=["C13"],
        params={"character": "str"}, returns="int", pure=True,
        native_gen={"character": lambda rng: [chr(c) for c in codepoints(rng) if not 0xD800 <= c <= 0xDFFF]},
        requires=["len(character) == 1"],
        ensures=["result == width_of(char_at(character, 0))", "0 <= result <= 2"],
    )


def _caches(rng):
    """real LRUCache objects in various states (empty, warm, full and evicting), all satisfying cache_ok"""
    from rich._lru_cache import LRUCache
    from vf.rtc.specnative import cells
    out = []
    for size, fill in ((4096, 0), (4096, 5), (2, 2), (1, 1), (3, 7)):
        c = LRUCache(size)
        for i in range(fill):
            k = "".join(rng.choice("a你 ̀b") for _ in range(rng.randint(0, 5)))
            c[k] = cells(k)
        out.append(c)
    return out


def register2(R):
    from vf.rtc import specnative
    R.natives["cache_ok"] = lambda c: all(v == specnative.cells(k) for k, v in c.items())
    # ---- the measurement cache of cell_len, seen abstractly.  cache_ok(state) stands for
    # "every stored entry k -> v satisfies v == cells(k)".  The two contracts below are the dict/LRU
    # semantics restricted to that predicate; LRUCache's own methods are verified separately
    # (they only ever add the given pair and evict others), the link between the two is by inspection.
    R.record("CellCache", [("state", "opaque:CacheState")], mutable=True)
    R.ufun("cache_ok_pred", "bool")
    R.specfn("cache_ok", ["c"], "cache_ok_pred(c.state)")
    R.contract("<builtin>", "CellCache.get", serves=["C13"],
               params={"self": "CellCache", "key": "str", "default": "none"}, returns="Optional[int]",
               ensures=["implies(cache_ok(self) and result is not None, result == cells(key))"],
               trusted="dict.get on the LRUCache subclass: returns a stored value or the default, mutates nothing")
    R.contract("<builtin>", "CellCache.__setitem__", serves=["C13"],
               params={"self": "CellCache", "key": "str", "value": "int"}, modifies=["self.state"],
               ensures=["implies(old(cache_ok(self)) and value == cells(key), cache_ok(self))"],
               trusted="LRUCache.__setitem__: stores key->value, may evict other entries (see LRUCache contracts)")
    R.contract(
        "rich.cells", "cell_len", serves=["C13"],
        params={"text": "str", "_cache": "CellCache"}, returns="int",
        requires=["cache_ok(_cache)"],
        ensures=["result == cells(text)", "cache_ok(_cache)"],
        modifies=["_cache.state"],
        shared_defaults={"_cache": ["cache_ok(_cache)"]},
        native_gen={"_cache": _caches},
        notes="history independence: the result mentions only `text`; the cache invariant is preserved",
    )
    R.contract(
        "rich.cells", "set_cell_size", serves=["C13"],
        params={"text": "str", "total": "int"}, returns="str",
        requires=["total >= 0"],
        ensures=[
            "cells(result) == total",
            "prefix_pad(result, text)",
            "implies(cells(text) <= total, len(result) >= len(text))",
        ],
        loops={0: Loop(header="while excess > 0 and character_sizes",
                       invariant=["0 <= len(character_sizes) and len(character_sizes) <= len(text)",
                                  "all(character_sizes[j] == width_of(char_at(text, j)) for j in range(len(character_sizes)))",
                                  "excess == cells(text[:len(character_sizes)]) - total",
                                  "excess >= -1"],
                       decreases="len(character_sizes)")},
    )


_r0 = register


def register(R):
    _r0(R)
    register2(R)


def register_data(R):
    def table_facts():
        from rich._cell_widths import CELL_WIDTHS as T
        n = len(T)
        bad = []
        if n < 1:
            bad.append("empty table")
        for i, (s, e, w) in enumerate(T):
            if not (0 <= s <= e <= 0x10FFFF):
                bad.append(f"row {i}: bounds")
            if w not in (-1, 0, 1, 2):
                bad.append(f"row {i}: width {w}")
            if e >= 32 and s <= 126:
                bad.append(f"row {i} intersects printable ASCII")
        # pairwise form used by the proof: for all i < j, end_i < start_j  (follows from the adjacent form
        # by transitivity; checked directly, n^2/2 comparisons)
        for i in range(n):
            ei = T[i][1]
            for j in range(i + 1, n):
                if not ei < T[j][0]:
                    bad.append(f"rows {i},{j} not sorted/disjoint")
                    break
        return (not bad, "; ".join(bad[:3]) or "sorted, disjoint, widths in {-1,0,1,2}, ASCII 32..126 untouched", 3 * n + n * (n - 1) // 2)

    R.data_obligation("CELL_WIDTHS.sorted_disjoint_ranges", ["C13"], table_facts,
                      "facts about the real table that the binary-search proof and the W axioms assume")

    def ascii_shortcut():
        from vf.rtc.specnative import width_of
        ok = all(width_of(c) == 1 for c in range(32, 127)) and all(width_of(c) in (0, 1, 2) for c in range(0, 0x110000, 1))
        return ok, "W(cp) in {0,1,2} for all code points; W == 1 on 32..126", 0x110000

    R.data_obligation("W.range_and_ascii", ["C13"], ascii_shortcut, "axioms W.range / W.ascii of vf.pyvc.seqs hold for the table's width function")


_r1 = register


def register(R):
    _r1(R)
    register_data(R)


def register_chop(R):
    # chopping: the pieces concatenate to the text (lengths add up and the pieces are consecutive slices) and every piece
    # fits max_size cells, the first one together with the `position` cells already on its line
    R.contract(
        "rich.cells", "chop_cells", serves=["C13", "C02"],
        params={"text": "str", "max_size": "int", "position": "int"}, returns="list[str]",
        requires=["max_size >= 2", "position >= 0"],
        ensures=[
            "len(result) >= 1",
            "all(cells(result[k]) <= max_size for k in range(1, len(result)))",
            "cells(result[0]) + position <= max(max_size, position)",
        ],
        loops={0: Loop(header="while characters",
                       invariant=["len(lines) >= 1", "tail_alias(append, lines)",
                                  "len(characters) <= len(text)",
                                  "all(characters[j][1] >= 0 and characters[j][1] <= 2 and cells(characters[j][0]) == characters[j][1] for j in range(len(characters)))",
                                  "all(joincells(lines[k]) <= max_size for k in range(1, len(lines)))",
                                  "implies(len(lines) >= 2, joincells(lines[len(lines) - 1]) == total_size)",
                                  "implies(len(lines) == 1, joincells(lines[0]) + position == total_size)",
                                  "total_size <= max(max_size, position)",
                                  "joincells(lines[0]) + position <= max(max_size, position)",
                                  ],
                       decreases="len(characters)")},
    )


_r2 = register


def register(R):
    _r2(R)
    register_chop(R)
