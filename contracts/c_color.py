"""Contracts for rich.color / rich.palette / rich.color_triplet (C18; also used by C03/C06/C19)."""
import z3

from vf.pyvc.contracts import Loop

# ColorType: DEFAULT 0, STANDARD 1, EIGHT_BIT 2, TRUECOLOR 3, WINDOWS 4 ; ColorSystem: STANDARD 1 ... WINDOWS 4


def _palette(n, tag):
    def make(ex):
        """A palette constant seen abstractly: `n` entries with components 0..255 (data obligation)."""
        from vf.pyvc.sorts import INT, TUPLE, LIST, V

        row = TUPLE(INT, INT, INT)
        dt = ex.U.z3sort(row)
        so = ex.U.rec("Palette")
        pal = z3.Const(f"{tag}_PALETTE", ex.U.z3sort(so))
        seqdt = ex.U.z3sort(LIST(row))
        colors = ex.U.z3sort(so).accessor(0, 0)(pal)
        arr, ln = seqdt.arr(colors), seqdt.len(colors)
        r = z3.Int(f"r!{tag}")
        ex.global_facts.append(ln == n)
        ex.global_facts.append(z3.ForAll([r], z3.Implies(z3.And(0 <= r, r < n), z3.And(*[
            z3.And(dt.accessor(0, k)(arr[r]) >= 0, dt.accessor(0, k)(arr[r]) <= 255) for k in range(3)])), patterns=[arr[r]]))
        return V(so, pal)
    return make


def register(R):
    R.record("ColorTriplet", [("red", "int"), ("green", "int"), ("blue", "int")], pyclass="rich.color_triplet.ColorTriplet")
    R.record("Color", [("name", "ostr"), ("type", "int"), ("number", "Optional[int]"), ("triplet", "Optional[ColorTriplet]")],
             pyclass="rich.color.Color")
    R.record("Palette", [("_colors", "list[tuple[int,int,int]]")], pyclass="rich.palette.Palette")
    R.const_overrides[("rich._palettes", "STANDARD_PALETTE")] = _palette(16, "STANDARD")
    R.const_overrides[("rich._palettes", "WINDOWS_PALETTE")] = _palette(16, "WINDOWS")
    R.const_overrides[("rich._palettes", "EIGHT_BIT_PALETTE")] = _palette(256, "EIGHT_BIT")

    R.specfn("byte", ["x"], "0 <= x and x <= 255")
    R.specfn("wf_triplet", ["t"], "byte(t.red) and byte(t.green) and byte(t.blue)")
    R.specfn("wf_color", ["c"],
             "0 <= c.type and c.type <= 4"
             " and implies(c.type == 1 or c.type == 4, c.number is not None and 0 <= c.number and c.number <= 15)"
             " and implies(c.type == 2, c.number is not None and 0 <= c.number and c.number <= 255)"
             " and implies(c.type == 3, c.triplet is not None and wf_triplet(c.triplet))")
    R.specfn("same_color", ["a", "b"], "a.type == b.type and a.number == b.number and a.triplet == b.triplet")
    # representable in system s (the property's words): 16 indices for standard / windows, 256 otherwise
    R.specfn("in_gamut", ["c", "s"],
             "c.type == 0"
             " or (s == 1 and c.type == 1 and c.number is not None and 0 <= c.number and c.number <= 15)"
             " or (s == 4 and c.type == 4 and c.number is not None and 0 <= c.number and c.number <= 15)"
             " or (s == 2 and c.type != 3 and c.number is not None and 0 <= c.number and c.number <= 255)"
             " or s == 3")
    R.specfn("representable", ["c", "s"], "c.type == 0 or c.type == s or s == 3 or (s == 2 and c.type != 3)")
    # Rich's weighted-RGB metric (radicand; from the documented red-mean formula)
    R.specfn("dist2", ["r1", "g1", "b1", "p"],
             "((512 + (r1 + p[0]) // 2) * (r1 - p[0]) * (r1 - p[0])) // 256 + 4 * (g1 - p[1]) * (g1 - p[1])"
             " + ((767 - (r1 + p[0]) // 2) * (b1 - p[2]) * (b1 - p[2])) // 256")
    R.specfn("nearest", ["pal", "t", "k"],
             "0 <= k and k < len(pal._colors) and all(dist2(t.red, t.green, t.blue, pal._colors[k]) <= dist2(t.red, t.green, t.blue, pal._colors[j]) for j in range(len(pal._colors)))")

    R.contract("rich.color_triplet", "ColorTriplet.normalized", serves=["C18"], inline=True)
    R.contract("rich.color", "Color.system", serves=["C18"], inline=True)
    R.contract("rich.palette", "Palette.__getitem__", serves=["C18"], inline=True)
    R.contract(
        "<external>", "colorsys.rgb_to_hls", serves=["C18"],
        params={"r": "float", "g": "float", "b": "float"}, returns="tuple[float,float,float]",
        ensures=[
            "result[1] == (max(r, g, b) + min(r, g, b)) / 2.0",
            "implies(max(r, g, b) == min(r, g, b), result[2] == 0.0)",
            "implies(max(r, g, b) != min(r, g, b) and result[1] <= 0.5, result[2] == (max(r, g, b) - min(r, g, b)) / (max(r, g, b) + min(r, g, b)))",
            "implies(max(r, g, b) != min(r, g, b) and result[1] > 0.5, result[2] == (max(r, g, b) - min(r, g, b)) / (2.0 - max(r, g, b) - min(r, g, b)))",
        ],
        trusted="colorsys.rgb_to_hls (stdlib): lightness and saturation formulas restated from its source; bounded-checked against the library by contracts/c_color.py:rgb_to_hls_matches_library",
    )
    R.contract(
        "rich.palette", "Palette.match", serves=["C18"],
        params={"self": "Palette", "color": "tuple[int,int,int]"}, returns="int", pure=True,
        requires=["len(self._colors) >= 1", "byte(color[0]) and byte(color[1]) and byte(color[2])",
                  "all(byte(self._colors[j][0]) and byte(self._colors[j][1]) and byte(self._colors[j][2]) for j in range(len(self._colors)))"],
        ensures=["0 <= result and result < len(self._colors)",
                 "all(dist2(color[0], color[1], color[2], self._colors[result]) <= dist2(color[0], color[1], color[2], self._colors[j]) for j in range(len(self._colors)))"],
        native=False,
    )
    R.contract(
        "rich.color", "Color.get_ansi_codes", serves=["C18", "C03"],
        params={"self": "Color", "foreground": "bool"}, returns="list[str]", pure=True,
        requires=["wf_color(self)"],
        ensures=[
            "implies(self.type == 0, len(result) == 1 and result[0] == ('39' if foreground else '49'))",
            "implies(self.type == 1 or self.type == 4, len(result) == 1 and result[0] == str((30 if foreground else 40) + self.number if self.number < 8 else (90 if foreground else 100) + self.number - 8))",
            "implies(self.type == 2, len(result) == 3 and result[0] == ('38' if foreground else '48') and result[1] == '5' and result[2] == str(self.number))",
            "implies(self.type == 3, len(result) == 5 and result[0] == ('38' if foreground else '48') and result[1] == '2' and result[2] == str(self.triplet.red) and result[3] == str(self.triplet.green) and result[4] == str(self.triplet.blue))",
        ],
        native=False,
    )
    R.contract(
        "rich.color", "Color.downgrade", serves=["C18", "C03"],
        params={"self": "Color", "system": "int"}, returns="Color", pure=True,
        requires=["wf_color(self)", "1 <= system and system <= 4"],
        ensures=[
            "wf_color(result)",
            "in_gamut(result, system)",
            "implies(representable(self, system), same_color(result, self))",
            "implies(self.type == 0, result.type == 0)",
            "implies(self.type == 3 and system == 2, 16 <= result.number and result.number <= 255)",
            "implies(self.type == 3 and system == 2 and self.triplet.red == self.triplet.green and self.triplet.green == self.triplet.blue, result.number == 16 or result.number >= 231)",
            "implies(self.type == 3 and system == 1, nearest(STANDARD_PALETTE, self.triplet, result.number))",
            "implies(self.type == 3 and system == 4, nearest(WINDOWS_PALETTE, self.triplet, result.number))",
            "result.name == self.name",
        ],
        native=False,
    )
    # canonical typing of numbered colours: the parser (Color.parse) types "color(n)" STANDARD below 16 and EIGHT_BIT from
    # 16 up; every factory has to agree or equal-looking styles differ (C06)
    R.contract(
        "rich.color", "Color.from_ansi", serves=["C06", "C18"],
        params={"number": "int"}, returns="Color", pure=True,
        requires=["0 <= number and number <= 255"],
        ensures=["result.number == number", "result.triplet is None",
                 "iff(result.type == 1, number < 16)", "iff(result.type == 2, number >= 16)", "wf_color(result)"],
    )
    R.contract(
        "rich.color_triplet", "ColorTriplet.hex", serves=["C06", "C18"],
        params={"self": "ColorTriplet"}, returns="ostr", pure=True, ensures=[],
        trusted="ColorTriplet.hex: only used as the display name of a colour; its text (format spec {:02x}) is outside the encoder, no property of it is assumed",
    )
    R.contract(
        "rich.color", "Color.from_triplet", serves=["C06", "C18"],
        params={"triplet": "ColorTriplet"}, returns="Color", pure=True,
        requires=["wf_triplet(triplet)"],
        ensures=["wf_color(result)", "result.type == 3", "result.triplet == triplet", "result.number is None"],
    )
    R.contract(
        "rich.color", "Color.default", serves=["C06", "C18"],
        params={}, returns="Color", pure=True,
        ensures=["wf_color(result)", "result.type == 0", "result.triplet is None", "result.number is None"],
    )
    R.lemma(
        "downgrade_idempotent", serves=["C18"],
        vars={"c": "Color", "s": "int"},
        assumes=["wf_color(c)", "1 <= s and s <= 4", "in_gamut(c, s)"],
        claims=["representable(c, s)"],
        notes="with Color.downgrade's third postcondition this gives downgrade(downgrade(c, s), s) == downgrade(c, s)",
    )
