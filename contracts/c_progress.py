"""Contracts for rich.progress.Task (C12: derived values) — floats are mathematical reals (assumption A5)."""


def register(R):
    R.record("ProgressSample", [("timestamp", "float"), ("completed", "float")], pyclass="rich.progress.ProgressSample")
    R.record("Task", [("id", "int"), ("total", "float"), ("completed", "float"), ("finished_time", "Optional[float]"),
                      ("start_time", "Optional[float]"), ("stop_time", "Optional[float]"), ("visible", "bool"),
                      ("_progress", "list[ProgressSample]"), ("_get_time", "opaque:GetTime"),
                      ("description", "ostr"), ("fields", "opaque:FieldsDict")], pyclass="rich.progress.Task", mutable=True)
    # deque invariant maintained by Progress.update / advance under the lock
    R.specfn("samples_ok", ["t"],
             "all(t._progress[i].completed >= 0 for i in range(len(t._progress)))"
             " and all(t._progress[i].timestamp <= t._progress[i + 1].timestamp for i in range(len(t._progress) - 1))"
             " and all(t._progress[0].timestamp <= t._progress[i].timestamp for i in range(len(t._progress)))")
    R.contract("rich.progress", "Task.remaining", serves=["C12"], inline=True)
    R.contract("rich.progress", "Task.started", serves=["C12"], inline=True)
    R.contract(
        "rich.progress", "Task.finished", serves=["C12"], params={"self": "Task"}, returns="bool",
        ensures=["result == (self.finished_time is not None)"], native=False)
    R.contract(
        "rich.progress", "Task.percentage", serves=["C12"], params={"self": "Task"}, returns="float",
        ensures=["0 <= result and result <= 100",
                 "implies(self.total == 0, result == 0)",
                 "implies(self.total != 0, result == min(100.0, max(0.0, self.completed / self.total * 100.0)))"],
        native=False)
    R.contract(
        "rich.progress", "Task.speed", serves=["C12"], params={"self": "Task"}, returns="Optional[float]",
        requires=["samples_ok(self)"],
        ensures=["implies(result is not None, result >= 0)",
                 "implies(self.start_time is None or len(self._progress) == 0, result is None)"],
        native=False)
    R.contract(
        "rich.progress", "Task.time_remaining", serves=["C12"], params={"self": "Task"}, returns="Optional[float]",
        requires=["samples_ok(self)"],
        ensures=["implies(self.finished_time is not None, result == 0)",
                 "implies(result is not None and self.completed <= self.total, result >= 0)"],
        native=False)


def register_progress(R):
    from vf.pyvc.contracts import Loop

    R.record("Progress", [("_lock", "opaque:RLock"), ("_tasks", "dict[int,Task]"), ("_task_index", "int"),
                          ("get_time", "opaque:GetTime"), ("speed_estimate_period", "float"),
                          # the display side, as seen by refresh() (contracts/c_livestop.py)
                          ("console", "ConsoleL"), ("disable", "bool"), ("_live_render", "LiveRender")],
             pyclass="rich.progress.Progress", mutable=True)
    # the clock: readings never decrease (the property's "arbitrary (monotone) clock readings");
    # ghost_now is the latest reading handed out to any thread
    R.contract("<opaque>", "GetTime.__call__", serves=["C12"], params={"self": "opaque:GetTime"}, returns="float",
               ensures=["result >= ghost_now"], ghost_update={"ghost_now": "result"},
               trusted="monotone clock (precondition of the property): each reading is >= every earlier reading")
    R.specfn("seq_nonneg", ["p"], "all(p[i].completed >= 0 for i in range(len(p)))")
    R.specfn("seq_sorted", ["p"], "all(all(p[i].timestamp <= p[j].timestamp for j in range(i, len(p))) for i in range(len(p)))")
    R.specfn("seq_past", ["p", "now"], "all(p[i].timestamp <= now for i in range(len(p)))")
    MON = {"lock": "_lock", "cls": "Progress", "protects": ["_tasks", "_task_index"],
           "invariant": ["all(seq_nonneg(self._tasks[k]._progress) for k in self._tasks)",
                         "all(seq_sorted(self._tasks[k]._progress) for k in self._tasks)",
                         "all(seq_past(self._tasks[k]._progress, ghost_now) for k in self._tasks)"],
           "ghost_monotone": ["ghost_now"]}
    LOOPINV = ["seq_nonneg(_progress)", "seq_sorted(_progress)", "seq_past(_progress, ghost_now)"]
    POPLOOPS = {
        0: Loop(header="while _progress and _progress[0].timestamp < old_sample_time", invariant=LOOPINV, decreases="len(_progress)"),
        1: Loop(header="while len(_progress) > 1000", invariant=LOOPINV, decreases="len(_progress)"),
    }
    R.contract("rich.progress", "Task._reset", serves=["C12"], inline=True)
    R.contract("rich.progress", "Task.get_time", serves=["C12"], inline=True)
    R.contract(
        "rich.progress", "Task.elapsed", serves=["C12"], params={"self": "Task"}, returns="Optional[float]",
        ghost={"ghost_now": "float"}, raises={},
        ensures=["(result is None) == (self.start_time is None)"], native=False)
    R.contract(
        "rich.progress", "Progress.advance", serves=["C12", "C11"],
        params={"self": "Progress", "task_id": "int", "advance": "float"},
        requires=["advance >= 0"],
        ghost={"ghost_now": "float"}, monitor=MON, loops=POPLOOPS,
        raises={"KeyError": "*"},
        ensures=[
            "self._tasks[task_id].completed == acq(self._tasks[task_id].completed) + advance",
            "implies(self._tasks[task_id].start_time is not None and self._tasks[task_id].completed >= self._tasks[task_id].total, self._tasks[task_id].finished_time is not None)",
            "implies(acq(self._tasks[task_id].finished_time) is not None, self._tasks[task_id].finished_time == acq(self._tasks[task_id].finished_time))",
            "self._tasks[task_id].total == acq(self._tasks[task_id].total)",
        ],
        native=False,
    )


def register_update(R):
    from vf.pyvc.contracts import Loop
    adv = R.contracts[("rich.progress", "Progress.advance")]
    R.contract("<opaque>", "FieldsDict.update", serves=["C12"], params={"self": "opaque:FieldsDict", "other": "opaque:FieldsDict"},
               trusted="dict.update on the free-form task fields (not part of the property)")
    T = "self._tasks[task_id]"
    A = "acq(self._tasks[task_id])"
    R.contract(
        "rich.progress", "Progress.update", serves=["C12", "C11"],
        params={"self": "Progress", "task_id": "int", "total": "Optional[float]", "completed": "Optional[float]", "advance": "Optional[float]",
                "description": "Optional[ostr]", "visible": "Optional[bool]", "refresh": "bool", "fields": "opaque:FieldsDict"},
        requires=["implies(advance is not None, advance >= 0)", "implies(completed is not None, completed >= 0)", "console_ok(self.console)"],
        ghost={"ghost_now": "float"}, monitor=adv.monitor, loops=adv.loops, modifies=["self.console.unwritten"],
        raises={"KeyError": "*", "BaseException": "*"},
        ensures=[
            f"implies(completed is not None, {T}.completed == completed)",
            f"implies(completed is None and advance is not None, {T}.completed == {A}.completed + advance)",
            f"implies(completed is None and advance is None, {T}.completed == {A}.completed)",
            f"{T}.total == (total if total is not None else {A}.total)",
            f"implies({T}.start_time is not None and {T}.completed >= {T}.total, {T}.finished_time is not None)",
            f"implies(total is None and {A}.finished_time is not None, {T}.finished_time == {A}.finished_time)",
        ],
        native=False,
    )
    R.contract(
        "rich.progress", "Progress.reset", serves=["C12", "C11"],
        params={"self": "Progress", "task_id": "int", "start": "bool", "total": "Optional[int]", "completed": "int",
                "visible": "Optional[bool]", "description": "Optional[ostr]", "fields": "opaque:FieldsDict"},
        ghost={"ghost_now": "float"}, monitor=adv.monitor,
        requires=["console_ok(self.console)"], modifies=["self.console.unwritten"],
        raises={"KeyError": "*", "BaseException": "*"},
        ensures=[
            f"{T}.completed == completed",
            f"{T}.finished_time is None",
            f"len({T}._progress) == 0",
            f"implies(total is not None, {T}.total == total)",
            f"implies(total is None, {T}.total == {A}.total)",
            f"iff({T}.start_time is not None, start)",
        ],
        ensures_raise={"BaseException": [f"{T}.completed == completed", f"{T}.finished_time is None"]},
        native=False,
    )
    R.contract(
        "rich.progress", "Progress.start_task", serves=["C12", "C11"],
        params={"self": "Progress", "task_id": "int"},
        ghost={"ghost_now": "float"}, monitor=adv.monitor, raises={"KeyError": "*"},
        ensures=[f"{T}.start_time is not None", f"{T}.completed == {A}.completed and {T}.total == {A}.total",
                 f"implies({A}.start_time is not None, {T}.start_time == {A}.start_time)"],
        native=False,
    )
    R.contract(
        "rich.progress", "Progress.stop_task", serves=["C12", "C11"],
        params={"self": "Progress", "task_id": "int"},
        ghost={"ghost_now": "float"}, monitor=adv.monitor, raises={"KeyError": "*"},
        ensures=[f"{T}.start_time is not None and {T}.stop_time is not None", f"{T}.completed == {A}.completed and {T}.total == {A}.total"],
        native=False,
    )


_p0 = register


def register(R):
    _p0(R)
    register_progress(R)
    register_update(R)
