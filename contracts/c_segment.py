"""Contracts for rich.segment (C13 line shaping; reused by C01/C08 frames)."""
from vf.pyvc.contracts import Loop


def register(R):
    R.contract(
        "rich.segment", "Segment.cell_length", serves=["C13"],
        params={"self": "Segment"}, returns="int",
        ensures=["result == (0 if self.is_control else cells(self.text))", "result >= 0"],
        native=False,
    )
    R.contract(
        "rich.segment", "Segment.get_line_length", serves=["C13"],
        params={"line": "list[Segment]"}, returns="int",
        ensures=["result == line_cells(line)"],
        native=False,
    )
    R.contract(
        "rich.segment", "Segment.adjust_line_length", serves=["C13", "C08", "C01"],
        params={"line": "list[Segment]", "length": "int", "style": "Optional[Style]", "pad": "bool"}, returns="list[Segment]",
        requires=["length >= 0"],
        ensures=[
            # exactly the requested cell length whenever padding is on or the line is too long
            "implies(pad or line_cells(line) >= length, line_cells(result) == length)",
            "implies(not pad and line_cells(line) <= length, len(result) == len(line) and all(result[i] == line[i] for i in range(len(line))))",
            "implies(not pad and line_cells(line) <= length, line_cells(result) == line_cells(line))",
            # padding is one trailing segment of spaces carrying exactly the requested style; the original segments are untouched
            "implies(pad and line_cells(line) < length, len(result) == len(line) + 1 and all(result[i] == line[i] for i in range(len(line))) and result[len(line)].style == style and not result[len(line)].is_control and cells(result[len(line)].text) == length - line_cells(line))",
            # cropping keeps a prefix of the segments unchanged and cuts inside one segment (same style)
            "implies(line_cells(line) > length, len(result) >= 1 and len(result) <= len(line) and all(result[i] == line[i] for i in range(len(result) - 1)) and result[len(result) - 1].style == line[len(result) - 1].style and prefix_pad(result[len(result) - 1].text, line[len(result) - 1].text))",
        ],
        loops={0: Loop(header="for segment in line", index="i",
                       invariant=["len(new_line) == i", "all(new_line[j] == line[j] for j in range(i))",
                                  "line_length == line_cells(line[:i])", "line_length == line_cells(new_line)", "line_length <= length"])},
        native=False,
    )


def register_split(R):
    R.contract(
        "rich.segment", "Segment.split_and_crop_lines", serves=["C13", "C08", "C01"],
        params={"segments": "list[Segment]", "length": "int", "style": "Optional[Style]", "pad": "bool", "include_new_lines": "bool"},
        returns="list[list[Segment]]", ghost={"yields": "list[Segment]"},
        requires=["length >= 0", "width_of(10) == 0"],
        ensures=[
            # every produced line has exactly the requested cell length when padding, at most that otherwise
            "all(line_cells(result[k]) <= length for k in range(len(result)))",
            "implies(pad, all(line_cells(result[k]) == length for k in range(len(result))))",
        ],
        loops={
            0: Loop(header="for segment in segments", index="i",
                    invariant=["all(line_cells(__yielded__[k]) <= length for k in range(len(__yielded__)))",
                               "implies(pad, all(line_cells(__yielded__[k]) == length for k in range(len(__yielded__))))"]),
            1: Loop(header="while text",
                    invariant=["all(line_cells(__yielded__[k]) <= length for k in range(len(__yielded__)))",
                               "implies(pad, all(line_cells(__yielded__[k]) == length for k in range(len(__yielded__))))"],
                    decreases="len(text)"),
        },
        native=False,
    )


def register_shape(R):
    R.contract(
        "rich.segment", "Segment.set_shape", serves=["C13", "C08", "C10"],
        params={"lines": "list[list[Segment]]", "width": "int", "height": "Optional[int]", "style": "Optional[Style]"},
        returns="list[list[Segment]]",
        requires=["width >= 0", "implies(height is not None, height >= 0)"],
        ensures=[
            # the enclosing rectangle: max(len(lines), height) lines, each exactly `width` cells
            "len(result) == max(len(lines), height if height is not None else len(lines))",
            "all(line_cells(result[k]) == width for k in range(len(result)))",
        ],
        loops={0: Loop(header="for line, _ in zip_longest(lines, range(height))", index="i",
                       invariant=["len(new_lines) == i", "all(line_cells(new_lines[k]) == width for k in range(i))"])},
        native=False,
    )


def register_simplify(R):
    R.contract(
        "rich.segment", "Segment.simplify", serves=["C13", "C15"],
        params={"segments": "list[Segment]"}, returns="list[Segment]", ghost={"yields": "Segment"},
        ensures=[
            # merging neighbours never changes what a line occupies, never adds segments, never drops the last one
            "line_cells(result) == line_cells(segments)",
            "len(result) <= len(segments)",
            "implies(len(segments) > 0, len(result) >= 1)",
        ],
        loops={0: Loop(header="for segment in iter_segments", index="i",
                       invariant=["line_cells(__yielded__) + (0 if last_segment.is_control else cells(last_segment.text)) == line_cells(segments[:i + 1])",
                                  "len(__yielded__) <= i"])},
        native=False,
    )


_s0 = register


def register(R):
    _s0(R)
    register_split(R)
    register_shape(R)
    register_simplify(R)
