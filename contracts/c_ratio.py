"""Contracts for rich._ratio (serves C01, C07): see DESIGN.md Appendix A.1 / A.2."""
from vf.pyvc.contracts import Loop


def register(R):
    R.contract(
        "rich._ratio", "ratio_reduce", serves=["C01", "C07"],
        params={"total": "int", "ratios": "list[int]", "maximums": "list[int]", "values": "list[int]"},
        returns="list[int]", pure=True,
        requires=[
            "total >= 0",
            "len(ratios) == len(maximums) and len(maximums) == len(values)",
            "all(ratios[i] >= 0 for i in range(len(ratios)))",
            "all(maximums[i] >= 0 for i in range(len(maximums)))",
        ],
        ensures=[
            "len(result) == len(values)",
            "all(values[i] - maximums[i] <= result[i] and result[i] <= values[i] for i in range(len(values)))",
            "all(implies(ratios[i] == 0 or maximums[i] == 0, result[i] == values[i]) for i in range(len(values)))",
            "lsum(values) - lsum(result) <= total",
            "lsum(values) - lsum(result) >= 0",
        ],
        loops={
            0: Loop(
                header="for ratio, maximum, value in zip(ratios, maximums, values)",
                index="i",
                invariant=[
                    "len(result) == i",
                    "0 <= total_remaining and total_remaining <= total",
                    "total_ratio == lsum(ratios[i:])",
                    "lsum(values[:i]) - lsum(result) == total - total_remaining",
                    "all(values[j] - maximums[j] <= result[j] and result[j] <= values[j] for j in range(i))",
                    "all(implies(ratios[j] == 0, result[j] == values[j]) for j in range(i))",
                ],
            )
        },
    )
    R.contract(
        "rich._ratio", "ratio_distribute", serves=["C01", "C07"],
        params={"total": "int", "ratios": "list[int]", "minimums": "Optional[list[int]]"},
        returns="list[int]", pure=True,
        requires=[
            # (no sign condition on `total`: Table._calculate_column_widths passes a negative total when the table is already
            # wider than the width it is given; every share is then its minimum, 0 without minimums)
            "all(ratios[i] >= 0 for i in range(len(ratios)))",
            "implies(minimums is not None, len(minimums) == len(ratios))",
            # the code's own leading assert (sum of the masked ratios is positive) is a precondition
            "implies(minimums is None or len(minimums) == 0, lsum(ratios) > 0)",
            "implies(minimums is not None and len(minimums) > 0, any(ratios[i] > 0 and minimums[i] != 0 for i in range(len(ratios))))",
        ],
        ensures=[
            "len(result) == len(ratios)",
            "lsum(result) >= total",
            "implies(minimums is None and total >= 0, lsum(result) == total)",
            "implies(minimums is None, all(result[i] >= 0 for i in range(len(result))))",
            "implies(minimums is not None and len(minimums) > 0, all(result[i] >= minimums[i] for i in range(len(result))))",
        ],
        loops={
            0: Loop(
                header="for ratio, minimum in zip(ratios, _minimums)",
                index="i",
                invariant=[
                    "len(distributed_total) == i",
                    "total_ratio == lsum(ratios[i:])",
                    "lsum(distributed_total) + total_remaining == total",
                    "implies(old(minimums) is None and total >= 0, total_remaining >= 0)",
                    "implies(old(minimums) is None, all(distributed_total[j] >= 0 for j in range(i)))",
                    "implies(old(minimums) is None and total >= 0 and i > 0 and total_ratio == 0, total_remaining == 0)",
                    "implies(i > 0 and total_ratio == 0, total_remaining <= 0)",
                    "implies(i == 0, total_ratio > 0)",
                    "all(distributed_total[j] >= _minimums[j] for j in range(i))",
                    "all(ratios[j] >= 0 for j in range(len(ratios)))",
                ],
            )
        },
    )
